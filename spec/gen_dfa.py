#!/usr/bin/env python3
"""Build the minimal DFA of RFC 3986 `URI-reference` from spec/rfc3986.abnf.

Pipeline: ABNF text -> AST -> Thompson NFA (bytes, epsilon) -> subset construction
-> Moore minimisation -> byte classes, access strings, characterisation set W,
"inside bracket" annotation.  Emits build/spec_dfa.h (C tables) and
build/spec_dfa.json (same data, for evidence and self checks).

The model is checked here as well: complete, minimal (pairwise distinguishable),
dead state absorbing, RFC examples accepted.  Any failure exits non-zero.
"""
import sys, re, json, os, collections

HERE = os.path.dirname(os.path.abspath(__file__))

# ----------------------------------------------------------------- ABNF parsing
def tokenize(src):
    toks = []
    i = 0
    while i < len(src):
        c = src[i]
        if c in ' \t\r\n':
            i += 1
        elif c == ';':
            while i < len(src) and src[i] != '\n':
                i += 1
        elif c == '"':
            j = src.index('"', i + 1)
            toks.append(('str', src[i + 1:j])); i = j + 1
        elif c == '%':
            m = re.match(r'%x([0-9A-Fa-f]+)(?:-([0-9A-Fa-f]+))?', src[i:])
            lo = int(m.group(1), 16); hi = int(m.group(2), 16) if m.group(2) else lo
            toks.append(('range', (lo, hi))); i += m.end()
        elif c in '/()[]=':
            toks.append((c, c)); i += 1
        elif c.isdigit() or c == '*':
            m = re.match(r'(\d*)\*(\d*)|(\d+)', src[i:])
            if m.group(3) is not None:
                n = int(m.group(3)); toks.append(('rep', (n, n)))
            else:
                lo = int(m.group(1)) if m.group(1) else 0
                hi = int(m.group(2)) if m.group(2) else None
                toks.append(('rep', (lo, hi)))
            i += m.end()
        elif c.isalpha():
            m = re.match(r'[A-Za-z][A-Za-z0-9-]*', src[i:])
            toks.append(('name', m.group(0))); i += m.end()
        else:
            raise SystemExit('abnf: bad char %r at %d' % (c, i))
    return toks

def parse_abnf(src):
    toks = tokenize(src)
    # split into rules: name '=' ... until next (name '=')
    starts = [i for i in range(len(toks) - 1) if toks[i][0] == 'name' and toks[i + 1][0] == '=']
    rules = {}
    for k, s in enumerate(starts):
        e = starts[k + 1] if k + 1 < len(starts) else len(toks)
        body = toks[s + 2:e]
        pos = [0]
        def peek():
            return body[pos[0]] if pos[0] < len(body) else (None, None)
        def alt():
            items = [cat()]
            while peek()[0] == '/':
                pos[0] += 1; items.append(cat())
            return ('alt', items) if len(items) > 1 else items[0]
        def cat():
            items = []
            while peek()[0] not in (None, '/', ')', ']'):
                items.append(rep())
            return ('cat', items)
        def rep():
            t = peek()
            if t[0] == 'rep':
                pos[0] += 1
                return ('rep', t[1][0], t[1][1], elem())
            return elem()
        def elem():
            t = peek(); pos[0] += 1
            if t[0] == '(':
                a = alt(); assert peek()[0] == ')'; pos[0] += 1; return a
            if t[0] == '[':
                a = alt(); assert peek()[0] == ']'; pos[0] += 1; return ('rep', 0, 1, a)
            if t[0] in ('str', 'range', 'name'):
                return t
            raise SystemExit('abnf: unexpected %r' % (t,))
        rules[toks[s][1]] = alt()
        assert pos[0] == len(body), (toks[s][1], pos[0], len(body))
    return rules

# ----------------------------------------------------------------- NFA
class NFA:
    def __init__(self):
        self.eps = []      # list of sets
        self.tr = []       # list of dict byte->set
    def new(self):
        self.eps.append(set()); self.tr.append(collections.defaultdict(set))
        return len(self.eps) - 1

def build(nfa, rules, node):
    """returns (start, end)"""
    k = node[0]
    if k == 'str':
        s = nfa.new(); cur = s
        for ch in node[1]:
            n = nfa.new()
            bs = {ord(ch.lower()), ord(ch.upper())}   # ABNF literals are case-insensitive
            for b in bs:
                nfa.tr[cur][b].add(n)
            cur = n
        return s, cur
    if k == 'range':
        s = nfa.new(); e = nfa.new()
        for b in range(node[1][0], node[1][1] + 1):
            nfa.tr[s][b].add(e)
        return s, e
    if k == 'name':
        return build(nfa, rules, rules[node[1]])
    if k == 'cat':
        s = nfa.new(); cur = s
        for it in node[1]:
            a, b = build(nfa, rules, it)
            nfa.eps[cur].add(a); cur = b
        return s, cur
    if k == 'alt':
        s = nfa.new(); e = nfa.new()
        for it in node[1]:
            a, b = build(nfa, rules, it)
            nfa.eps[s].add(a); nfa.eps[b].add(e)
        return s, e
    if k == 'rep':
        lo, hi, sub = node[1], node[2], node[3]
        s = nfa.new(); cur = s
        for _ in range(lo):
            a, b = build(nfa, rules, sub)
            nfa.eps[cur].add(a); cur = b
        if hi is None:
            a, b = build(nfa, rules, sub)
            loop = nfa.new()
            nfa.eps[cur].add(loop); nfa.eps[loop].add(a); nfa.eps[b].add(loop)
            cur = loop
        else:
            e = nfa.new()
            for _ in range(hi - lo):
                a, b = build(nfa, rules, sub)
                nfa.eps[cur].add(e); nfa.eps[cur].add(a); cur = b
            nfa.eps[cur].add(e); cur = e
        return s, cur
    raise SystemExit('build: %r' % (node,))

def closure(nfa, S):
    st = list(S); seen = set(S)
    while st:
        x = st.pop()
        for y in nfa.eps[x]:
            if y not in seen:
                seen.add(y); st.append(y)
    return frozenset(seen)

def determinise(nfa, s, e):
    start = closure(nfa, {s})
    ids = {start: 0}; order = [start]; trans = []
    i = 0
    while i < len(order):
        S = order[i]; row = [None] * 256
        by = collections.defaultdict(set)
        for x in S:
            for b, T in nfa.tr[x].items():
                by[b] |= T
        cache = {}
        for b in range(256):
            T = frozenset(by.get(b, ()))
            if T not in cache:
                cache[T] = closure(nfa, T) if T else frozenset()
            C = cache[T]
            if C not in ids:
                ids[C] = len(order); order.append(C)
            row[b] = ids[C]
        trans.append(row); i += 1
    acc = [e in S for S in order]
    return trans, acc

def minimise(trans, acc):
    n = len(trans)
    part = [1 if a else 0 for a in acc]
    while True:
        sig = {}
        newp = [0] * n
        for q in range(n):
            key = (part[q], tuple(part[t] for t in trans[q]))
            if key not in sig:
                sig[key] = len(sig)
            newp[q] = sig[key]
        if len(sig) == len(set(part)):
            part = newp; break
        part = newp
    # renumber so that the initial state's block is 0, BFS order
    k = len(set(part))
    rep = {}
    for q in range(n):
        rep.setdefault(part[q], q)
    order = []; seen = {}
    queue = collections.deque([part[0]]); seen[part[0]] = 0; order.append(part[0])
    while queue:
        b = queue.popleft()
        for t in trans[rep[b]]:
            pb = part[t]
            if pb not in seen:
                seen[pb] = len(order); order.append(pb); queue.append(pb)
    assert len(order) == k, 'unreachable blocks?'
    mt = [[seen[part[t]] for t in trans[rep[b]]] for b in order]
    ma = [acc[rep[b]] for b in order]
    return mt, ma

def main():
    out_dir = sys.argv[1] if len(sys.argv) > 1 else os.path.join(HERE, '..', 'build')
    os.makedirs(out_dir, exist_ok=True)
    rules = parse_abnf(open(os.path.join(HERE, 'rfc3986.abnf')).read())
    nfa = NFA()
    s, e = build(nfa, rules, ('name', 'URI-reference'))
    n_nfa = len(nfa.eps)
    trans, acc = determinise(nfa, s, e)
    n_dfa = len(trans)
    mt, ma = minimise(trans, acc)
    n = len(mt)
    # dead state: non-accepting, all self loops
    dead = [q for q in range(n) if not ma[q] and all(t == q for t in mt[q])]
    assert len(dead) == 1, dead
    dead = dead[0]
    # byte classes
    cols = {}
    cls = [0] * 256
    reps = []
    for b in range(256):
        col = tuple(mt[q][b] for q in range(n))
        if col not in cols:
            cols[col] = len(cols); reps.append(b)
        cls[b] = cols[col]
    ncls = len(cols)
    # prefer printable, telling representatives
    members = collections.defaultdict(list)
    for b in range(256):
        members[cls[b]].append(b)
    # shortest access strings (BFS over bytes in class-rep order), plus a second one
    access = {0: b''}
    queue = collections.deque([0])
    while queue:
        q = queue.popleft()
        for c in range(ncls):
            b = reps[c]; t = mt[q][b]
            if t not in access:
                access[t] = access[q] + bytes([b]); queue.append(t)
    assert len(access) == n
    access2 = {}
    for q in range(n):
        for c in range(ncls):
            for b in members[c][:2]:
                t = mt[q][b]; w = access[q] + bytes([b])
                if w != access[t] and t not in access2:
                    access2[t] = w
    # in-bracket annotation: reached after '[' with no ']' since
    flag = {0: 0}
    queue = collections.deque([0])
    while queue:
        q = queue.popleft()
        for b in range(256):
            t = mt[q][b]
            if t == dead:
                continue
            f = flag[q]
            if b == ord('['):
                f = 1
            elif b == ord(']'):
                f = 0
            if t in flag:
                assert flag[t] == f, ('bracket flag ambiguous', t)
            else:
                flag[t] = f; queue.append(t)
    inbr = [flag.get(q, 0) for q in range(n)]
    # characterisation set W: for every pair of states a distinguishing suffix
    def run(q, w):
        for b in w:
            q = mt[q][b]
        return q
    # compute pairwise distinguishing strings by partition refinement with witnesses
    W = set()
    # table-filling with shortest witnesses
    dist = {}
    pairs = [(p, q) for p in range(n) for q in range(p + 1, n)]
    for p, q in pairs:
        if ma[p] != ma[q]:
            dist[(p, q)] = b''
    changed = True
    while changed:
        changed = False
        for p, q in pairs:
            if (p, q) in dist:
                continue
            best = None
            for c in range(ncls):
                b = reps[c]
                tp, tq = mt[p][b], mt[q][b]
                if tp == tq:
                    continue
                k = (min(tp, tq), max(tp, tq))
                if k in dist:
                    w = bytes([b]) + dist[k]
                    if best is None or len(w) < len(best):
                        best = w
            if best is not None:
                dist[(p, q)] = best; changed = True
    assert len(dist) == len(pairs), 'DFA not minimal?'
    # greedy reduction: keep a suffix only if it separates a pair not yet separated
    cand = sorted(set(dist.values()), key=lambda w: (len(w), w))
    sepd = set()
    Wl = []
    # evaluate each candidate's separation power
    accvec = {}
    for w in cand:
        accvec[w] = [ma[run(q, w)] for q in range(n)]
    remaining = set(pairs)
    while remaining:
        best = None; bestn = -1
        for w in cand:
            v = accvec[w]
            c = sum(1 for (p, q) in remaining if v[p] != v[q])
            if c > bestn:
                best, bestn = w, c
        assert bestn > 0
        Wl.append(best)
        v = accvec[best]
        remaining = {(p, q) for (p, q) in remaining if v[p] == v[q]}
    # self checks
    for ex in [b'ftp://ftp.is.co.za/rfc/rfc1808.txt', b'http://www.ietf.org/rfc/rfc2396.txt',
               b'ldap://[2001:db8::7]/c=GB?objectClass?one', b'mailto:John.Doe@example.com',
               b'news:comp.infosystems.www.servers.unix', b'tel:+1-816-555-1212',
               b'telnet://192.0.2.16:80/', b'urn:oasis:names:specification:docbook:dtd:xml:4.1.2',
               b'', b'//', b'?', b'#', b'a', b'./a:b', b'//[v1.x]', b'//[::]', b'//[1:2:3:4:5:6:7:8]',
               b'//[::1.2.3.4]', b'//[1::]:80', b'/', b'//@:']:
        assert ma[run(0, ex)], ex
    for ex in [b'a:b:[', b'[', b']', b'//[', b'//[::', b'//[1:2:3:4:5:6:7:8:9]', b'//[::1.2.3.256]', b'%',
               b'%4', b'%4g', b'1:a', b':', b'//[v.x]', b'//[v1.]', b'a b', b'//h:8a', b'#a#', b'\x80',
               b'//[1:2:3:4:5:6:7::8]x', b'//[::1]a']:
        assert not ma[run(0, ex)], ex
    for b in range(256):
        assert mt[dead][b] == dead
    doc = dict(n_nfa=n_nfa, n_dfa=n_dfa, n_states=n, dead=dead, n_classes=ncls,
               class_reps=reps, classes=[members[c] for c in range(ncls)],
               accept=[int(x) for x in ma], inbracket=inbr,
               trans_by_class=[[mt[q][reps[c]] for c in range(ncls)] for q in range(n)],
               byte_class=cls,
               access=[access[q].decode('latin1') for q in range(n)],
               access2=[access2.get(q, b'').decode('latin1') for q in range(n)],
               has_access2=[int(q in access2) for q in range(n)],
               W=[w.decode('latin1') for w in Wl])
    json.dump(doc, open(os.path.join(out_dir, 'spec_dfa.json'), 'w'))
    def cstr(bs):
        return '"' + ''.join('\\%03o' % b for b in bs) + '"'
    with open(os.path.join(out_dir, 'spec_dfa.h'), 'w') as f:
        f.write('/* generated by spec/gen_dfa.py - do not edit */\n#pragma once\n#include <stdint.h>\n')
        f.write('#define DFA_NSTATES %d\n#define DFA_NCLASSES %d\n#define DFA_DEAD %d\n' % (n, ncls, dead))
        f.write('#define DFA_N_NFA %d\n#define DFA_N_SUBSET %d\n#define DFA_NW %d\n' % (n_nfa, n_dfa, len(Wl)))
        f.write('static const uint8_t DFA_CLASS[256] = {%s};\n' % ','.join(map(str, cls)))
        f.write('static const uint8_t DFA_CLASS_REP[DFA_NCLASSES] = {%s};\n' % ','.join(map(str, reps)))
        f.write('static const uint8_t DFA_ACCEPT[DFA_NSTATES] = {%s};\n' % ','.join(str(int(x)) for x in ma))
        f.write('static const uint8_t DFA_INBRACKET[DFA_NSTATES] = {%s};\n' % ','.join(map(str, inbr)))
        f.write('static const uint8_t DFA_T[DFA_NSTATES][DFA_NCLASSES] = {\n')
        for q in range(n):
            f.write(' {%s},\n' % ','.join(str(mt[q][reps[c]]) for c in range(ncls)))
        f.write('};\n')
        f.write('static const char *const DFA_ACCESS[DFA_NSTATES] = {\n')
        for q in range(n):
            f.write(' %s,\n' % cstr(access[q]))
        f.write('};\nstatic const char *const DFA_ACCESS2[DFA_NSTATES] = {\n')
        for q in range(n):
            f.write(' %s,\n' % (cstr(access2[q]) if q in access2 else '0'))
        f.write('};\nstatic const char *const DFA_W[DFA_NW] = {\n')
        for w in Wl:
            f.write(' %s,\n' % cstr(w))
        f.write('};\n')
    print('spec DFA: nfa=%d subset=%d minimal=%d (dead=%d) classes=%d W=%d maxW=%d' %
          (n_nfa, n_dfa, n, dead, ncls, len(Wl), max(len(w) for w in Wl)))
    assert n < 256

if __name__ == '__main__':
    main()
