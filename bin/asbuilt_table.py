#!/usr/bin/env python3
"""Prints a markdown table of what the evidence files say was covered (one row per check) - pasted into DESIGN.md 3.0."""
import json, os, glob, sys
V = os.path.dirname(os.path.dirname(os.path.abspath(__file__)))
def big(n):
    n = int(n)
    return '%.2f G' % (n / 1e9) if n >= 1e9 else '%.1f M' % (n / 1e6) if n >= 1e6 else '%.1f k' % (n / 1e3) if n >= 1e4 else str(n)
print('| id | tier | level | evaluations | states / transitions (where the check is a state search) | distinct non-trivial | exhaustive | wall s | known-finding cases |')
print('|---|---|---|---|---|---|---|---|---|')
for f in sorted(glob.glob(os.path.join(V, sys.argv[1] if len(sys.argv) > 1 else 'evidence', 'C*.json'))):
    d = json.load(open(f)); c = d['coverage']
    st = ''
    if 'states' in c and 'transitions' in c and d['level'] == 'model_checking': st = '%s / %s' % (big(c['states']), big(c['transitions']))
    print('| %s | %s | %s | %s | %s | %s | %s | %s | %s |' % (d['property_id'], d['tier'], d['level'], big(c.get('evaluations', 0)), st, big(c.get('distinct_nontrivial', 0)), c.get('exhaustive'), d['wall_s'], d.get('known_finding_cases', 0)))
