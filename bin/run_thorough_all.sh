#!/bin/sh
# Runs every thorough tier end to end (sequentially) and prints one line per check. Honours VERIF_REPO.
cd "$(dirname "$0")/.." || exit 2
for i in 01 02 03 04 05 06 07 08 09 10 11 12 13 14 15 16 17 18 19 20; do
  s=$(date +%s); bin/vcheck C$i --tier thorough > /tmp/thorough.C$i.log 2>&1; rc=$?; e=$(date +%s)
  echo "C$i thorough exit=$rc wall=$((e-s))s $(grep -c '^VIOLATION' /tmp/thorough.C$i.log) violations; $(grep 'thorough:' /tmp/thorough.C$i.log | head -1)"
  python3 -c "
import json; d=json.load(open('evidence/C$i.json')); print('   exhaustive=%s deadline_cut=%s wall_s=%s' % (d['coverage'].get('exhaustive'), d['coverage'].get('deadline_cut'), d['wall_s']))"
done
