#!/usr/bin/env python3
"""Writes MANIFEST.json from the table below (one entry per claimed property)."""
import json, os
VERIF = os.path.dirname(os.path.dirname(os.path.abspath(__file__)))
TRUST = "gcc 12 / glibc on x86-64; the harness' own reference model (harness/ref.cpp) and the RFC 3986 grammar transcription (spec/rfc3986.abnf), both self-checked at run time; 32-bit wchar_t"
CHECKS = {
 'C01': dict(cat='model_checking', tech='W-method conformance test of the real parser against the minimal DFA of the RFC 3986 grammar (every model transition replayed) + bounded-exhaustive string enumeration',
   text='The RFC 3986 URI-reference grammar is compiled into its minimal DFA (183 states, 21 byte classes). Every one of its 182x256 transitions is replayed on the real parser, followed by every distinguishing suffix with up to k arbitrary class symbols in between (complete for implementations with up to 183+k states), plus all class-alphabet strings up to length L over viable prefixes and IPv6/IPvFuture/dec-octet token products, through all parse entry points in both character types; verdict and error offset are compared with the model on every string.',
   ref='DESIGN.md section 3, C01', note=TRUST),
}
CHECKS.update({
 'C02': dict(cat='model_checking', tech='conformance of parsed component ranges against an independent Appendix-B decomposition on every accepted string of the spec-DFA test sets and bounded-exhaustive enumerations',
   text='Every accepted string of the spec-automaton test set (transition cover x characterisation set), of the class-alphabet brute force and of the IP/shape products is parsed through the entry points in both character types; each reported component (presence, emptiness, offset, text), the segment list, tail, absolute-path flag, host kind and address bytes are compared with a reference decomposition written from RFC 3986 Appendix B / RFC 4291; the reference recogniser itself is cross-checked against the DFA on every string.',
   ref='DESIGN.md section 3, C02', note=TRUST),
 'C03': dict(cat='model_checking', tech='bounded-exhaustive enumeration of (string, placement, trailing context, split point, failing allocation index) with hardware memory fences (PROT_NONE guard page, read-only view) and a ledger allocator',
   text='All strings of the lighter C01 sets are parsed at the end of a read-only mapping that abuts an inaccessible page, under each of 22 trailing contexts and at every split point; complete outcomes must coincide; a ledger allocator shows nothing is left allocated after syntax or out-of-memory failure (every allocation index failed, once and from-k-on) and that repeated frees release nothing. A sanitizer (ASan+UBSan) pass repeats a reduced set.',
   ref='DESIGN.md section 3, C03', note=TRUST + '; reads before `first` are not fenced'),
 'C04': dict(cat='model_checking', tech='bounded-exhaustive round trip (parse, recompose, re-parse, compare) over the spec-DFA test sets, with guard-placed exact-size output buffers',
   text='For every accepted string of the C01 sets and the shape product: recomposed text equals the input with IPv6 literals in eight-group lowercase form, charsRequired and charsWritten are exact, the text re-parses to a uriEqualsUri-equal, component-identical URI, and the owned copy recomposes identically; both character types.',
   ref='DESIGN.md section 3, C04', note=TRUST),
})
CHECKS.update({
 'C06': dict(cat='exploration', tech='bounded-exhaustive enumeration of (base, reference, option, manager, char type) with a reference implementation of RFC 3986 5.2.2-5.2.4 as oracle; arguments held in read-only memory',
   text='The full product of ~150 bases and all references built from 4 schemes x 4 authorities x every dot/empty/colon path-token sequence up to length n x queries x fragments is resolved by the library (strict and identical-scheme-compat, default and ledger manager, char and wchar_t) and compared component for component and as text with a literal implementation of RFC 3986 section 5.2; base and reference are write-protected during the call.',
   ref='DESIGN.md section 3, C06', note=TRUST),
})
CHECKS.update({
 'C08': dict(cat='exploration', tech='bounded-exhaustive enumeration of (URI, mask 0..63, borrowed/owned, manager, char type) against a reference RFC 3986 6.2.2 normaliser; idempotence and mask-required laws on every URI',
   text='A corpus built as the full product of component alternatives with case/percent-encoding variants and of all path-token sequences (dot, empty, colon, percent-encoded dot, case variants) in four contexts is normalised under every one of the 64 masks, borrowed and owned, with default and ledger manager, in both character types; every component is compared with the reference normal form (unselected components byte-identical), a second pass must change nothing, and normalising with the required mask must equal full normalisation.',
   ref='DESIGN.md section 3, C08', note=TRUST + '; where a relative path reduces to the current directory the statement does not fix the spelling and \'\', \'.\' and \'./\' are all accepted here (C09 decides)'),
 'C09': dict(cat='exploration', tech='bounded-exhaustive differential exploration: normalise(resolve(normalise(R),B)) vs normalise(resolve(R,B)) over all (R,B) of a token-sequence product; kind preservation per R',
   text='Every reference built from {no scheme, scheme} x {no authority, authority} x all dot/empty/colon path-token sequences up to length n x query x fragment is normalised, resolved against each of ~140 absolute bases and normalised again, and compared (text and uriEqualsUri) with resolving the untouched reference; scheme/authority presence and the path kind must survive normalisation. One genuine defect is an open known finding (relative path normalised to the empty reference; pinned by the repository tests).',
   ref='DESIGN.md section 3, C09', note=TRUST),
})
CHECKS.update({
 'C10': dict(cat='exploration', tech='bounded-exhaustive enumeration of (source, base, mode, manager, char type); round trip through the reference resolver; bounded witness search for the omission clause',
   text='The full product of sources and bases built from 2 schemes x 10 authorities x all path-token sequences up to length n x queries x fragments is run through uriRemoveBaseUri in both modes; the produced reference is read back from its text, resolved against the base by the reference RFC 3986 resolver and must be equivalent to the source; a bounded witness search decides when scheme and authority have to be omitted; error codes, read-only arguments and ledger balance are checked on every call.',
   ref='DESIGN.md section 3, C10', note=TRUST + '; rootless sources in domain-root mode: keeping the scheme is accepted (the statement\'s clauses collide there)'),
 'C11': dict(cat='model_checking', tech='explicit enumeration of all ordered pairs (and triples) over two finite sets of URI objects: a one-difference family judged by component identity, and library-made objects judged by text identity',
   text='All ordered pairs of a family that contains every single-component difference (incl. IPv4/IPv6 by value, IPvFuture, absent vs empty, absolute vs rootless) are compared in both character types against component-wise identity of the reference decomposition; all pairs of objects made by parse/normalise/makeOwner/resolve/shorten are compared against identity of the recomposed text; symmetry, reflexivity, transitivity on all triples of a subset, NULL arguments; arguments are write-protected.',
   ref='DESIGN.md section 3, C11', note=TRUST),
})
CHECKS.update({
 'C07': dict(cat='model_checking', tech='explicit-state breadth-first search over URI objects with the real API calls as transition relation, canonical state hashing, invariant evaluated in every state',
   text='Breadth-first search on the implementation itself: states are URI objects (canonical key without addresses), transitions are real calls (normalize under 9 masks, makeOwner, resolve as reference/base against 8 bases x 2 options, shorten as source/base x 2 modes, write-and-reparse); from ~600-2500 initial parsed URIs to depth 4 (quick) / 7 (thorough) every reached state must recompose to a valid URI reference that re-parses to the same scheme, authority parts, path text, query and fragment, with a well-formed structure.',
   ref='DESIGN.md section 3, C07', note=TRUST + '; states are rebuilt by replaying operation histories on fresh objects'),
})
CHECKS.update({
 'C05': dict(cat='exploration', tech='bounded-exhaustive enumeration of (URI object, every capacity -1..len+2, charsWritten flag, char type) with the destination ending at a PROT_NONE page',
   text='Every URI of the shape product - as parsed, normalised, resolved and shortened - is written with every capacity from -1 to required+2, with and without charsWritten, in both character types, into a buffer whose end (dest+capacity) is the first byte of an inaccessible page; return codes, charsWritten, terminator, empty-string-on-failure and exactness of charsRequired are checked on every call.',
   ref='DESIGN.md section 3, C05', note=TRUST),
 'C16': dict(cat='exploration', tech='bounded-exhaustive enumeration of strings x flag combinations against an independent escape/unescape reference, with exact-size guard-placed buffers',
   text='All single characters, all pairs over a 14-symbol alphabet and all strings up to length 5/6 over 7 symbols are escaped under both flags through both entry points into a buffer of exactly 3n+1 (6n+1) characters that ends at an inaccessible page; all strings up to length 6/7 over an 11-symbol alphabet (percent, hex digits in both cases, non-hex, plus, CR, LF) are unescaped in place under plus on/off and the four break modes in a buffer of exactly strlen+1 characters; results are compared with an independent reference and the escape/unescape round trip is checked; both character types.',
   ref='DESIGN.md section 3, C16', note=TRUST),
})
CHECKS.update({
 'C17': dict(cat='exploration', tech='bounded-exhaustive enumeration of key/value lists x flags x every capacity, of splitter strings, and of INT_MAX-edge length combinations, against a reference compose/dissect',
   text='Every list of 1-2 items (plus a third) over an 11-string alphabet of keys/values (incl. NULL value, &, =, +, %, CR LF, 0xFF) is composed under both flags with every capacity 0..charsRequired+1 into a buffer ending at an inaccessible page, dissected back with matching options (default and ledger manager) and compared with the original list; all splitter strings up to length 6/8 over {&,=,a,+,%,4,1} are compared with a reference splitter; key/value lengths around INT_MAX/6 and INT_MAX/3 (strings mapped without using memory) must be refused, never wrapped.',
   ref='DESIGN.md section 3, C17', note=TRUST + '; INT_MAX-edge family in the char API only'),
 'C18': dict(cat='exploration', tech='bounded-exhaustive enumeration of filenames (both directions, both char types) with exact documented-size guard-placed buffers; spec-DFA validity of the produced URI string',
   text='All names up to length 5/6 over a 14-symbol alphabet (letters, drive colon, both slashes, space, %, #, ?, dot, hex digits, 0x01, 0xFF) are converted to a URI string in a buffer of exactly the documented size that ends at an inaccessible page, checked against the RFC 3986 automaton and the documented form, converted back into a buffer of exactly the documented size and compared with the original; short forms file:/x and file:c:/x are converted as well.',
   ref='DESIGN.md section 3, C18', note=TRUST),
})
CHECKS.update({
 'C13': dict(cat='exploration', tech='bounded-exhaustive enumeration of (call, inputs, manager kind) with a ledger allocator, link-level interposition of the library objects\' own libc calls, and all 31 incomplete managers',
   text='Every manager-taking call over the scenario universe is run with a ledger manager, with the NULL manager (libc calls of the library objects are renamed at link level and counted) and with a manager completed from a malloc/free-only backend; six-call operation chains on every URI of the shape product; every non-empty subset of missing function pointers x every manager-taking function. No allocation may bypass a supplied manager, every free presents a live pointer of that manager, nothing is outstanding after the matching release, repeated release frees nothing, incomplete managers are rejected before any call.',
   ref='DESIGN.md section 3, C13', note=TRUST),
 'C14': dict(cat='fault_enumeration', tech='exhaustive fault enumeration: every allocation index of every call fails once, from-k-on, and in all pairs (deviation bound 2), with ledger manager and with libc itself (NULL manager) via interposed allocators',
   text='For every call of the scenario universe (parse x 3 entry points, makeOwner, normalize x 8 masks x borrowed/owned, resolve x 2, shorten x 2, dissect, compose) a counting run yields n allocation requests; then each k in 1..n fails once, each k fails with all later ones, and every pair fails; custom ledger manager and default libc allocator (failures injected in the interposed malloc/calloc/realloc); both character types. URI_ERROR_MALLOC must be returned, nothing may crash, leak, be freed twice or freed without having been handed out after the ordinary cleanup; read-only inputs are write-protected; an ASan pass watches for touches of released memory.',
   ref='DESIGN.md section 3, C14', note=TRUST + '; use-after-free is only visible in the sanitizer pass'),
 'C15': dict(cat='model_checking', tech='explicit-state BFS over allocator-call sequences on the real completed manager with a recording backend and backend-failure choices, compared step by step with a reference allocator model',
   text='Breadth-first search over sequences of malloc/calloc/realloc/reallocarray/free calls (sizes 0..4096 and values at SIZE_MAX, exact and overflowing nmemb*size products, NULL and live slots, up to 3 live blocks) on the manager produced by uriCompleteMemoryManager over a malloc/free-only recording backend whose next malloc may be told to fail (at most 2 failures per history), depth 4 (quick) / 6 (thorough); after every call block contents, disjointness, zeroing, prefix preservation, ENOMEM and backend frees are compared with a model; every history ends with freeing everything and an empty backend.',
   ref='DESIGN.md section 3, C15', note=TRUST),
})
CHECKS.update({
 'C12': dict(cat='exploration', tech='bounded-exhaustive enumeration of (URI, history, final operation) with revocable source mappings (PROT_READ during the operation, overwritten, then PROT_NONE) and a twin object as oracle',
   text='For every URI of the normalisation and shape corpora, under the histories parse / parse+resolve / parse+shorten (2 modes), followed by makeOwner or normalisation with each of the 63 masks: the source texts are write-protected during the operation, then the intermediate URIs are freed, the texts overwritten and finally unmapped-for-access; components and recomposed text must stay equal to a twin whose source stays alive, and a further normalisation and the final free must not fault. Read-only argument positions are exercised on URIs living entirely in PROT_READ memory.',
   ref='DESIGN.md section 3, C12', note=TRUST),
 'C19': dict(cat='exploration', tech='bounded-exhaustive case-by-case differential between every char function and its wchar_t counterpart over the enumerations of the other checks',
   text='Each input is run through the char function and the wchar_t function; the complete observation (codes, error offsets, component offsets and texts, host bytes, flags, text at every capacity, required sizes, charsWritten, query lists and counts, masks, returned pointers as offsets) is rendered after narrowing and must be identical; ten function families (parse, recompose, resolve, create reference, normalise incl. mask query and makeOwner, compare, escape, unescape, query, filename).',
   ref='DESIGN.md section 3, C19', note=TRUST),
})
CHECKS.update({
 'C20': dict(cat='model_checking', tech='stateless preemption-bounded exhaustive exploration of 2-3 threads under a serialising scheduler (scheduling points at allocator calls and, in a trace-pc build, at every basic-block edge of the library) + byte comparison of the library\'s writable data sections + free-running ThreadSanitizer pass',
   text='For all ordered pairs and all triples of ten thread bodies (parse, resolve, shorten, mask query, toString, equals, dissect, compose, normalize, makeOwner on own outputs and shared read-only inputs) every schedule with at most 2 (quick) / 3 (thorough) preemptions at allocator calls, and at most 1 / 2 preemptions at basic-block edges of the library, is executed on the real code under a deterministic serialising scheduler; each thread must observe exactly what it observes alone, the shared allocator ledger must balance, the linker-bracketed writable data sections of the library must stay byte-identical, shared inputs are write-protected. Unsynchronised accesses are additionally looked for by a free-running ThreadSanitizer run of the same bodies on 16 real threads (reported as not exhaustive).',
   ref='DESIGN.md section 3, C20', note=TRUST + '; sequentially consistent interleavings only; 2-3 threads'),
})
STRETCH = ' Plus the stretch family: every component in turn blown up to lengths around the powers of two up to 4 097 (quick) / 65 537 (thorough) repetitions, so that counters and sizes held in too narrow a type show.'
ADD = {
 'C01': STRETCH + ' The stretch strings are also run with an illegal character appended, a truncated escape appended, and an illegal character in the middle (error offsets far from the start).',
 'C02': STRETCH + ' The stand-alone IPv4 text parser (uriParseIpFourAddress) is compared with the reference on the 17^4 dec-octet product and all strings up to length 7 over {0,1,2,5,.,9,a}.',
 'C03': STRETCH + ' The state-based entry points (uriParseUriEx) are held to the same residue rules through the interposed C library allocator.',
 'C04': STRETCH, 'C05': STRETCH + ' (long objects: capacities at both ends, around the middle and around every power of two).',
 'C06': ' References also carry IPv4 / IPv6 / IPvFuture authorities and a scheme of which the base scheme is a proper prefix; deeper paths (n+2 tokens) over the reduced alphabet {empty, ., .., b}; where a rootless result would start with "//" the "." segment is required.',
 'C07': ' Initial states also include percent-encoded delimiters (%2F %3A %40 %3F %23 %5B %5D %25 %2E) in every component and deeper reduced-alphabet paths.',
 'C08': STRETCH + ' Plus all sequences up to 3 (4) over ten triplet / letter tokens inside user info, host, path segment, query and fragment (every adjacency of normal-form, lower-case-hex and decodable triplets).',
 'C10': ' Authorities that differ only in the last address byte / the low half of an IPv6 address are included; paths are compared kind-preservingly (a rootless ".//a" is not "/a").',
 'C11': ' (c) all pairs of all sub-ranges of one shared buffer that parse (components start or end at the same address with different texts).',
 'C13': ' The universe is extended until every out-of-memory return site of resolve / shorten / dot-segment removal is reached (checked with the gcov flavour, bin/vcheck --cov).',
 'C14': ' The universe is extended until every out-of-memory return site of resolve / shorten / dot-segment removal is reached (checked with the gcov flavour, bin/vcheck --cov).',
 'C16': STRETCH, 'C17': ' The C-library-allocator variants uriComposeQueryMalloc / uriComposeQueryMallocEx are compared as well.',
 'C18': STRETCH + ' Every byte value 1..255 is placed in every kind of position (first character, after a separator, inside a UNC server name, after a drive prefix).',
 'C20': ' Thirteen bodies since the third session: escape/unescape, the four filename conversions and a wchar_t parse+normalize+resolve+toString chain were added.',
}
ADD4 = {   # fourth session
 'C01': ' Octets 0..300 and all 22 hex digits are swept in every position; dotted texts of one to five parts end the text or are followed by port / path / query; user information that reads like host:port or like an IPv4 address stands in front of every host kind.',
 'C02': ' Octet / hex-digit sweeps and the dotted family as in C01.',
 'C03': ' Dotted texts of one to five parts end exactly at the inaccessible page; every reported range must be a pair (both ends set or none, in order).',
 'C04': ' Octet / hex-digit sweeps and the dotted family as in C01.',
 'C06': ' Every combination of user info x host kind (name, IPv4, IPv6, IPvFuture, name decoding to IPv4 text, empty) x port (none, empty, digits) as reference and as base.',
 'C07': ' Every initial text is parsed as a range in front of another character; IPvFuture literals with every kind of allowed character, segments ending in a colon and a few malformed texts are among the initial states.',
 'C08': ' All 256 triplets x 3 hex spellings and every printable character raw in every component where the grammar allows it (case folding touches letters only).',
 'C09': ' References with an authority (the authority product of C06 plus spellings that normalisation changes) and colon segments behind dot segments.',
 'C10': ' Schemes differing in case only or extending one another; one object passed as source and as base; bases whose last directory is a dot segment.',
 'C11': ' The parse of every produced text that no seed spells joins the compared objects (a produced object always meets the URI read from its own text); 21 IPv6 literals (several spellings of five addresses and their neighbours) in the family.',
 'C12': ' Shapes whose normal form needs an added "." segment (that text must be the URI\'s own).',
 'C13': ' OUT parameters hold 0x5A garbage on entry; the 31 incomplete managers also meet owner URIs (14 calls each).',
 'C14': ' OUT parameters hold 0x5A garbage on entry; the single-failure sets also run on the manager completed from a malloc/free-only backend (failures reach the library\'s calloc / realloc emulation), whose entry points are also called directly.',
 'C15': ' Plus the giant family: all call sequences up to length 3 over 8 sizes and 4 nmemb/size pairs around 2^32 on a backend that hands out address space only (contents checked on sparse offsets; growing an already giant block is left out).',
 'C16': ' Every %XY with X, Y among the 22 hex digits and their six code-table neighbours; triplets in front of long plain runs; an output area that starts where the input range ends; wide code points above 255 are escaped as well (known finding, output alphabet still demanded).',
 'C17': ' Every composed text and splitter string is also dissected without an item counter; long keys / values around the powers of two; a real buffer of INT_MAX characters for a list that does not fit; lists whose worst-case figure is INT_MAX+1+f*d (d in -2..2); a wide key of INT_MAX/24+1 characters through a recording, refusing manager; wide code points above 255 (known finding).',
 'C18': ' Every byte as drive letter; wide code points above 255 (known finding, sizes and validity still demanded).',
 'C19': ' One path segment of 2^29+7 characters parsed and made owner in both APIs; query keys of INT_MAX/24+1 .. INT_MAX/6 characters sized in both APIs; long query texts; every byte value through escape and the filename functions; the allocating composer through a recording manager (request counted in characters); every normalisation repeated through a ledger manager.',
}
for k, v in ADD4.items(): ADD[k] = ADD.get(k, '') + v
NOT_YET = {}
def main():
    props = [json.loads(l) for l in open(os.path.join(VERIF, 'properties.jsonl'))]
    checks = []
    for p in props:
        c = CHECKS.get(p['id'])
        if not c: continue
        c = dict(c); c['text'] = c['text'] + ADD.get(p['id'], '')
        checks.append(dict(property_id=p['id'], quick_cmd='bin/vcheck %s --tier quick' % p['id'], thorough_cmd='bin/vcheck %s --tier thorough' % p['id'],
            evidence_file='evidence/%s.json' % p['id'], replay_cmd_template='bin/vcheck --replay {path}', engine='vcheck',
            level_claimed=dict(category=c['cat'], text=c['text'], design_ref=c['ref']), level_note=c['note'], technique=c['tech']))
    na = [dict(property_id=p['id'], reason=NOT_YET.get(p['id'], 'check not built yet at this commit (planned in DESIGN.md section 3); no claim is made')) for p in props if p['id'] not in CHECKS]
    m = dict(version=1, setup_cmd='bin/vcheck --build',
        hooks=dict(guard='URIPARSER_VERIF', enable='bin/vcheck compiles /repo/src/*.c with -DURIPARSER_VERIF=1 (no guarded hook exists in the sources; nothing depends on it)',
                   baseline_off_cmd='bin/baseline_off.sh', source_commits=[], add_only=True),
        engines=[dict(name='vcheck', path='bin/vcheck', serves_properties=sorted(CHECKS), kind_free_text='bounded-exhaustive explorer / explicit-state model checker over the real library (C++17 harness in harness/, spec automaton in spec/)')],
        checks=checks, not_applicable=na,
        notes='Every check rebuilds the library objects from /repo working tree (content hash) before running. known_findings.json lists genuine defects found; see DESIGN.md.')
    json.dump(m, open(os.path.join(VERIF, 'MANIFEST.json'), 'w'), indent=1)
    print('MANIFEST.json: %d checks, %d not claimed' % (len(checks), len(na)))
main()
