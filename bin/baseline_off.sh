#!/bin/sh
# Runs the repository's own test suite with the verification guard OFF (the guard is only ever passed by bin/vcheck).
set -e
cmake --build /repo/_build >/dev/null
ctest --test-dir /repo/_build -j8 --timeout 900
