#include "ref.h"
#include <string.h>
namespace ref {

bool is_alpha(unsigned char c) { return (c >= 'A' && c <= 'Z') || (c >= 'a' && c <= 'z'); }
bool is_digit(unsigned char c) { return c >= '0' && c <= '9'; }
bool is_hex(unsigned char c) { return is_digit(c) || (c >= 'A' && c <= 'F') || (c >= 'a' && c <= 'f'); }
bool is_unreserved(unsigned char c) { return is_alpha(c) || is_digit(c) || c == '-' || c == '.' || c == '_' || c == '~'; }
bool is_subdelim(unsigned char c) { return c && strchr("!$&'()*+,;=", c) != 0; }
int hexval(unsigned char c) { return is_digit(c) ? c - '0' : (c >= 'a' && c <= 'f') ? c - 'a' + 10 : (c >= 'A' && c <= 'F') ? c - 'A' + 10 : -1; }
Str to_lower(const Str &s) { Str o = s; for (size_t i = 0; i < o.size(); i++) if (o[i] >= 'A' && o[i] <= 'Z') o[i] = (char)(o[i] + 32); return o; }

// every character is in `extra`, unreserved, sub-delim, or part of a well-formed pct-encoded triplet
static bool chars_ok(const Str &s, const char *extra, bool allow_pct = true) {
    for (size_t i = 0; i < s.size(); i++) {
        unsigned char c = (unsigned char)s[i];
        if (c == '%') {
            if (!allow_pct) return false;
            if (i + 2 >= s.size()) return false;
            if (!is_hex((unsigned char)s[i + 1]) || !is_hex((unsigned char)s[i + 2])) return false;
            i += 2; continue;
        }
        if (is_unreserved(c) || is_subdelim(c)) continue;
        if (c && strchr(extra, c)) continue;
        return false;
    }
    return true;
}

bool parse_ipv4(const Str &s, unsigned char out[4]) {
    size_t i = 0;
    for (int k = 0; k < 4; k++) {
        size_t j = i; int v = 0;
        while (j < s.size() && is_digit((unsigned char)s[j]) && j - i < 4) { v = v * 10 + (s[j] - '0'); j++; }
        size_t n = j - i;
        if (n < 1 || n > 3) return false;
        if (n > 1 && s[i] == '0') return false;      // dec-octet has no leading zero
        if (v > 255) return false;
        out[k] = (unsigned char)v; i = j;
        if (k < 3) { if (i >= s.size() || s[i] != '.') return false; i++; }
    }
    return i == s.size();
}

static bool parse_h16(const Str &g, unsigned &v) {
    if (g.size() < 1 || g.size() > 4) return false;
    v = 0; for (size_t i = 0; i < g.size(); i++) { int h = hexval((unsigned char)g[i]); if (h < 0) return false; v = v * 16 + h; }
    return true;
}
// groups separated by single ':'; last may be IPv4 when allow_v4; empty text = zero groups
static bool parse_groups(const Str &t, bool allow_v4, std::vector<unsigned> &out) {
    out.clear(); if (t.empty()) return true;
    std::vector<Str> gs; Str cur;
    for (size_t i = 0; i < t.size(); i++) { if (t[i] == ':') { gs.push_back(cur); cur.clear(); } else cur += t[i]; }
    gs.push_back(cur);
    for (size_t k = 0; k < gs.size(); k++) {
        unsigned v;
        if (parse_h16(gs[k], v)) { out.push_back(v); continue; }
        unsigned char ip[4];
        if (allow_v4 && k + 1 == gs.size() && parse_ipv4(gs[k], ip)) { out.push_back(ip[0] * 256u + ip[1]); out.push_back(ip[2] * 256u + ip[3]); continue; }
        return false;
    }
    return true;
}
bool parse_ipv6(const Str &s, unsigned char out[16]) {
    size_t z = s.find("::");
    std::vector<unsigned> a, b;
    if (z == Str::npos) {
        if (!parse_groups(s, true, a) || a.size() != 8) return false;
    } else {
        if (s.find("::", z + 1) != Str::npos) return false;     // second "::" (also catches ":::")
        if (!parse_groups(s.substr(0, z), false, a)) return false;
        if (!parse_groups(s.substr(z + 2), true, b)) return false;
        if (a.size() + b.size() > 7) return false;
        while (a.size() + b.size() < 8) a.push_back(0);
        a.insert(a.end(), b.begin(), b.end());
    }
    for (int i = 0; i < 8; i++) { out[2 * i] = (unsigned char)(a[i] >> 8); out[2 * i + 1] = (unsigned char)(a[i] & 255); }
    return true;
}
bool valid_ipvfuture(const Str &s) {
    if (s.size() < 4 || (s[0] != 'v' && s[0] != 'V')) return false;
    size_t i = 1; while (i < s.size() && is_hex((unsigned char)s[i])) i++;
    if (i == 1 || i >= s.size() || s[i] != '.') return false;
    i++; if (i >= s.size()) return false;
    for (; i < s.size(); i++) { unsigned char c = (unsigned char)s[i]; if (!(is_unreserved(c) || is_subdelim(c) || c == ':')) return false; }
    return true;
}
Str ipv6_full(const unsigned char ip[16]) {
    static const char *hx = "0123456789abcdef"; Str o;
    for (int i = 0; i < 16; i++) { o += hx[ip[i] >> 4]; o += hx[ip[i] & 15]; if ((i & 1) && i < 15) o += ':'; }
    return o;
}

bool decompose(const Str &s, RUri &u) {
    u = RUri();
    size_t i = 0, n = s.size();
    // scheme: non-empty run before the first of ":/?#", when that first one is ':'
    size_t d = s.find_first_of(":/?#");
    if (d != Str::npos && s[d] == ':' && d > 0) {
        Str sc = s.substr(0, d);
        if (!is_alpha((unsigned char)sc[0])) return false;
        for (size_t k = 1; k < sc.size(); k++) { unsigned char c = (unsigned char)sc[k]; if (!(is_alpha(c) || is_digit(c) || c == '+' || c == '-' || c == '.')) return false; }
        u.scheme.present = true; u.scheme.text = sc; u.scheme.off = 0; i = d + 1;
    }
    if (i + 1 < n && s.compare(i, 2, "//") == 0) {
        u.has_authority = true; i += 2;
        size_t e = s.find_first_of("/?#", i); if (e == Str::npos) e = n;
        Str au = s.substr(i, e - i); size_t base = i;
        size_t at = au.find('@'); Str hostport = au; size_t hp_off = base;
        if (at != Str::npos) {
            u.userinfo.present = true; u.userinfo.text = au.substr(0, at); u.userinfo.off = (int)base;
            if (!chars_ok(u.userinfo.text, ":")) return false;
            hostport = au.substr(at + 1); hp_off = base + at + 1;
        }
        Str host, port; bool has_port = false; size_t port_off = 0;
        if (!hostport.empty() && hostport[0] == '[') {
            size_t cb = hostport.find(']'); if (cb == Str::npos) return false;
            host = hostport.substr(1, cb - 1);
            Str rest = hostport.substr(cb + 1);
            if (!rest.empty()) { if (rest[0] != ':') return false; has_port = true; port = rest.substr(1); port_off = hp_off + cb + 2; }
            u.host.present = true; u.host.text = host; u.host.off = (int)hp_off + 1;
            if (parse_ipv6(host, u.ip)) u.hostkind = HK_IP6;
            else if (valid_ipvfuture(host)) u.hostkind = HK_FUTURE;
            else return false;
        } else {
            size_t c = hostport.find(':');
            if (c != Str::npos) { host = hostport.substr(0, c); has_port = true; port = hostport.substr(c + 1); port_off = hp_off + c + 1; }
            else host = hostport;
            if (!chars_ok(host, "")) return false;
            u.host.present = true; u.host.text = host; u.host.off = (int)hp_off;
            u.hostkind = parse_ipv4(host, u.ip) ? HK_IP4 : HK_REGNAME;
        }
        if (has_port) {
            for (size_t k = 0; k < port.size(); k++) if (!is_digit((unsigned char)port[k])) return false;
            u.port.present = true; u.port.text = port; u.port.off = (int)port_off;
        }
        i = e;
    }
    size_t pe = s.find_first_of("?#", i); if (pe == Str::npos) pe = n;
    u.path = s.substr(i, pe - i); u.path_off = (int)i;
    if (!chars_ok(u.path, ":@/")) return false;
    if (!u.scheme.present && !u.has_authority && !u.path.empty() && u.path[0] != '/') {
        size_t sl = u.path.find('/'); Str first = u.path.substr(0, sl);
        if (first.find(':') != Str::npos) return false;                 // path-noscheme
    }
    i = pe;
    if (i < n && s[i] == '?') {
        size_t qe = s.find('#', i); if (qe == Str::npos) qe = n;
        u.query.present = true; u.query.text = s.substr(i + 1, qe - i - 1); u.query.off = (int)i + 1;
        if (!chars_ok(u.query.text, ":@/?")) return false;
        i = qe;
    }
    if (i < n && s[i] == '#') {
        u.fragment.present = true; u.fragment.text = s.substr(i + 1); u.fragment.off = (int)i + 1;
        if (!chars_ok(u.fragment.text, ":@/?")) return false;
    }
    return true;
}

std::vector<Str> RUri::segments() const {
    std::vector<Str> v; if (path.empty()) return v;
    Str p = path;
    if (p[0] == '/') { p = p.substr(1); if (p.empty() && !has_authority) return v; }
    Str cur; for (size_t i = 0; i < p.size(); i++) { if (p[i] == '/') { v.push_back(cur); cur.clear(); } else cur += p[i]; }
    v.push_back(cur); return v;
}
std::vector<int> RUri::segment_offsets() const {
    std::vector<int> v; if (path.empty()) return v;
    size_t st = 0; if (path[0] == '/') { st = 1; if (path.size() == 1 && !has_authority) return v; }
    v.push_back(path_off + (int)st);
    for (size_t i = st; i < path.size(); i++) if (path[i] == '/') v.push_back(path_off + (int)i + 1);
    return v;
}

Str recompose(const RUri &u) {
    Str o;
    if (u.scheme.present) o += u.scheme.text + ":";
    if (u.has_authority) {
        o += "//";
        if (u.userinfo.present) o += u.userinfo.text + "@";
        if (u.hostkind == HK_IP6) o += "[" + ipv6_full(u.ip) + "]";
        else if (u.hostkind == HK_FUTURE) o += "[" + u.host.text + "]";
        else o += u.host.text;
        if (u.port.present) o += ":" + u.port.text;
    }
    o += u.path;
    if (u.query.present) o += "?" + u.query.text;
    if (u.fragment.present) o += "#" + u.fragment.text;
    return o;
}

// RFC 3986 5.2.4, literally, on strings
Str remove_dot_segments(const Str &path) {
    Str in = path, out;
    while (!in.empty()) {
        if (in.compare(0, 3, "../") == 0) in.erase(0, 3);
        else if (in.compare(0, 2, "./") == 0) in.erase(0, 2);
        else if (in.compare(0, 3, "/./") == 0) in.replace(0, 3, "/");
        else if (in == "/.") in = "/";
        else if (in.compare(0, 4, "/../") == 0) { in.replace(0, 4, "/"); size_t p = out.rfind('/'); if (p == Str::npos) out.clear(); else out.erase(p); }
        else if (in == "/..") { in = "/"; size_t p = out.rfind('/'); if (p == Str::npos) out.clear(); else out.erase(p); }
        else if (in == "." || in == "..") in.clear();
        else {
            size_t p = in.find('/', in[0] == '/' ? 1 : 0); if (p == Str::npos) p = in.size();
            out += in.substr(0, p); in.erase(0, p);
        }
    }
    return out;
}

std::vector<Str> remove_dots_list(const std::vector<Str> &segs, bool rooted) {
    (void)rooted;
    std::vector<Str> out;
    for (size_t i = 0; i < segs.size(); i++) {
        bool last = i + 1 == segs.size();
        if (segs[i] == ".") { if (last) out.push_back(""); }
        else if (segs[i] == "..") { if (!out.empty()) out.pop_back(); if (last) out.push_back(""); }
        else out.push_back(segs[i]);
    }
    return out;
}

static void copy_authority(RUri &t, const RUri &s) {
    t.has_authority = s.has_authority; t.userinfo = s.userinfo; t.host = s.host; t.port = s.port; t.hostkind = s.hostkind;
    memcpy(t.ip, s.ip, 16);
}
std::vector<Str> split_path(const Str &p, char sep) { std::vector<Str> v; Str cur; for (size_t i = 0; i < p.size(); i++) { if (p[i] == sep) { v.push_back(cur); cur.clear(); } else cur += p[i]; } v.push_back(cur); return v; }
Str join_path(const std::vector<Str> &v) { Str o; for (size_t i = 0; i < v.size(); i++) { if (i) o += "/"; o += v[i]; } return o; }
bool resolve(const RUri &base, const RUri &rr, bool strict, RUri &t, Str *pre_path, bool *dots_removed) {
    if (!base.scheme.present) return false;
    Str pre_dummy; bool dr_dummy; if (!pre_path) pre_path = &pre_dummy; if (!dots_removed) dots_removed = &dr_dummy;
    *dots_removed = true;
    RUri r = rr; t = RUri();
    if (!strict && r.scheme.present && r.scheme.text == base.scheme.text) r.scheme = Comp();
    if (r.scheme.present) {
        t.scheme = r.scheme; copy_authority(t, r); *pre_path = r.path; t.path = remove_dot_segments(r.path); t.query = r.query;
    } else {
        if (r.has_authority) { copy_authority(t, r); *pre_path = r.path; t.path = remove_dot_segments(r.path); t.query = r.query; }
        else {
            if (r.path.empty()) { t.path = base.path; *pre_path = base.path; *dots_removed = false; t.query = r.query.present ? r.query : base.query; }
            else {
                if (r.path[0] == '/') { *pre_path = r.path; t.path = remove_dot_segments(r.path); }
                else {
                    Str merged;
                    if (base.has_authority && base.path.empty()) merged = "/" + r.path;
                    else { size_t p = base.path.rfind('/'); merged = (p == Str::npos ? Str() : base.path.substr(0, p + 1)) + r.path; }
                    *pre_path = merged; t.path = remove_dot_segments(merged);
                }
                t.query = r.query;
            }
            copy_authority(t, base);
        }
        t.scheme = base.scheme;
    }
    t.fragment = r.fragment;
    t.scheme.off = t.userinfo.off = t.host.off = t.port.off = t.query.off = t.fragment.off = -1;
    return true;
}

bool resolve_expected(const RUri &base, const RUri &r, bool strict, Expected &e) {
    Str pre; bool dr = false; e = Expected();
    if (!resolve(base, r, strict, e.t, &pre, &dr)) return false;
    if (!dr) { e.regime = 3; e.path = e.t.path; return true; }
    if (!pre.empty() && pre[0] != '/') {
        e.regime = 2;
        std::vector<Str> E = remove_dots_list(split_path(pre), false);
        e.path = join_path(E);
        // a host-less text that starts with "//" would be read back as an authority: there the '.' segment is required, not optional
        // the kind-preserving spelling (leading "./") is the canonical one; the bare list is tolerated only where its text starts with a single '/'
        if (E.size() > 1 && E[0].empty()) { if (!(E.size() > 2 && E[1].empty())) { e.has_alt = true; e.alt_path = e.path; } e.path = "./" + e.path; }
        e.t.path = e.path;
        return true;
    }
    e.regime = 1; e.path = e.t.path;
    if (!e.t.has_authority && e.path.compare(0, 2, "//") == 0) e.path = "/." + e.path;
    e.t.path = e.path;
    return true;
}

Str upper_hex_triplets(const Str &s) {
    Str o = s;
    for (size_t i = 0; i + 2 < o.size(); i++)
        if (o[i] == '%' && is_hex((unsigned char)o[i + 1]) && is_hex((unsigned char)o[i + 2])) {
            for (int k = 1; k <= 2; k++) if (o[i + k] >= 'a' && o[i + k] <= 'f') o[i + k] = (char)(o[i + k] - 32);
            i += 2;
        }
    return o;
}
Str decode_unreserved(const Str &s) {
    Str o;
    for (size_t i = 0; i < s.size(); i++) {
        if (s[i] == '%' && i + 2 < s.size() && is_hex((unsigned char)s[i + 1]) && is_hex((unsigned char)s[i + 2])) {
            int v = hexval((unsigned char)s[i + 1]) * 16 + hexval((unsigned char)s[i + 2]);
            if (is_unreserved((unsigned char)v)) o += (char)v;
            else { static const char *HX = "0123456789ABCDEF"; o += '%'; o += HX[v >> 4]; o += HX[v & 15]; }
            i += 2;
        } else o += s[i];
    }
    return o;
}
Str lower_outside_triplets(const Str &s) {
    Str o = s;
    for (size_t i = 0; i < o.size(); i++) {
        if (o[i] == '%' && i + 2 < o.size() && is_hex((unsigned char)o[i + 1]) && is_hex((unsigned char)o[i + 2])) { i += 2; continue; }
        if (o[i] >= 'A' && o[i] <= 'Z') o[i] = (char)(o[i] + 32);
    }
    return o;
}


static bool has_colon(const Str &s) { return s.find(':') != Str::npos; }
void normalize(const RUri &in, unsigned mask, Normal &out) {
    out = Normal(); RUri &u = out.u; u = in;
    if ((mask & N_SCHEME) && u.scheme.present) u.scheme.text = to_lower(u.scheme.text);
    if ((mask & N_USER) && u.userinfo.present) u.userinfo.text = decode_unreserved(u.userinfo.text);
    if ((mask & N_HOST) && u.has_authority) {
        if (u.hostkind == HK_REGNAME) {
            u.host.text = lower_outside_triplets(decode_unreserved(u.host.text));
            // decoding can turn a registered name into the text of an IPv4 address ("1%2E2.3.4"); that text reads back as an IPv4 host
            unsigned char b4[4]; if (parse_ipv4(u.host.text, b4)) { u.hostkind = HK_IP4; memset(u.ip, 0, 16); memcpy(u.ip, b4, 4); }
        }
        else if (u.hostkind == HK_FUTURE) u.host.text = to_lower(u.host.text);
    }
    if ((mask & N_QUERY) && u.query.present) u.query.text = decode_unreserved(u.query.text);
    if ((mask & N_FRAGMENT) && u.fragment.present) u.fragment.text = decode_unreserved(u.fragment.text);
    if (!(mask & N_PATH) || u.path.empty()) return;
    // percent-encoding first (segment by segment; '/' is never produced because %2F is not unreserved)
    Str p = decode_unreserved(u.path);
    bool rooted = p[0] == '/';
    if (rooted) {
        Str r = remove_dot_segments(p);
        if (!u.has_authority && r.compare(0, 2, "//") == 0) r = "/." + r;
        u.path = r; return;
    }
    std::vector<Str> segs = split_path(p);
    if (u.scheme.present) {                       // rootless path of a URI: stays rootless
        std::vector<Str> L = remove_dots_list(segs, false);
        if (L.size() > 1 && L[0].empty()) L.insert(L.begin(), ".");
        u.path = join_path(L); return;
    }
    // relative-path reference: keep the leading ".." run
    std::vector<Str> L; bool trail = false;
    for (size_t i = 0; i < segs.size(); i++) {
        bool last = i + 1 == segs.size(); trail = false;
        if (segs[i] == ".") { if (last) trail = true; }
        else if (segs[i] == "..") { if (!L.empty() && L.back() != "..") { L.pop_back(); if (last) trail = true; } else L.push_back(".."); }
        else L.push_back(segs[i]);
    }
    if (trail && !(L.size() && L.back() == ".." )) L.push_back("");
    else if (trail) L.push_back("");
    Str t = join_path(L);
    if (t.empty()) { u.path = ""; out.path_alts.push_back("./"); out.path_alts.push_back("."); return; }   // reduces to "the current directory": the statement (C08) does not pick a spelling; C09 decides about ""
    if (has_colon(L[0]) || (L[0].empty() && L.size() > 1)) L.insert(L.begin(), ".");
    u.path = join_path(L);
}
bool path_matches(const Normal &n, const Str &t) {
    if (t == n.u.path) return true;
    for (size_t i = 0; i < n.path_alts.size(); i++) if (t == n.path_alts[i]) return true;
    return false;
}

}  // namespace ref
