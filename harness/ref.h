// Reference model, written from the RFC 3986 text (not from the library), over byte strings.
#pragma once
#include <string>
#include <vector>
#include <stdint.h>
typedef std::string Str;

namespace ref {

enum HostKind { HK_NONE = 0, HK_REGNAME = 1, HK_IP4 = 2, HK_IP6 = 3, HK_FUTURE = 4 };

struct Comp {                  // one optional component: absent / present (possibly empty)
    bool present; Str text; int off;   // off = offset in the decomposed text (or -1)
    Comp() : present(false), off(-1) {}
    bool operator==(const Comp &o) const { return present == o.present && text == o.text; }
    bool operator!=(const Comp &o) const { return !(*this == o); }
};

struct RUri {
    Comp scheme, userinfo, host, port, query, fragment;   // host.text is without brackets
    bool has_authority;
    int hostkind;
    unsigned char ip[16];      // ip4: 4 bytes, ip6: 16 bytes
    Str path;                  // full path text
    int path_off;
    RUri() : has_authority(false), hostkind(HK_NONE), path_off(0) { for (int i = 0; i < 16; i++) ip[i] = 0; }
    // segment list the way the grammar counts segments; abs = "host-less path beginning with '/'"
    std::vector<Str> segments() const;
    std::vector<int> segment_offsets() const;
    bool abs_flag() const { return !has_authority && !path.empty() && path[0] == '/'; }
};

// character classes
bool is_alpha(unsigned char c); bool is_digit(unsigned char c); bool is_hex(unsigned char c);
bool is_unreserved(unsigned char c); bool is_subdelim(unsigned char c);

// Appendix B split + component grammar.  Returns false when `s` is not a URI-reference.
bool decompose(const Str &s, RUri &out);
inline bool is_uri_reference(const Str &s) { RUri u; return decompose(s, u); }

bool parse_ipv4(const Str &s, unsigned char out[4]);          // strict dec-octets
bool parse_ipv6(const Str &s, unsigned char out[16]);         // RFC 3986 IPv6address, RFC 4291 value
bool valid_ipvfuture(const Str &s);
Str ipv6_full(const unsigned char ip[16]);                    // eight lowercase groups, no compression, no zero padding? see .cpp

// section 5.3
Str recompose(const RUri &u);

// section 5.2.4 on strings, literally
Str remove_dot_segments(const Str &path);
// segment-list variant that never turns a rootless path into an absolute one
std::vector<Str> remove_dots_list(const std::vector<Str> &segs, bool rooted);

// section 5.2.2 (strict = false: a reference scheme equal to the base scheme is ignored)
// Returns false if base has no scheme.
bool resolve(const RUri &base, const RUri &r, bool strict, RUri &target, Str *pre_path = 0, bool *dots_removed = 0);
std::vector<Str> split_path(const Str &p, char sep = '/');
Str join_path(const std::vector<Str> &v);

// What the property statement (C06) requires of resolution: the RFC 5.2.2 target with
//  - rootless merged paths reduced by the segment-list variant (never becoming absolute), and
//  - a single "." segment in front where a host-less path would begin with "//".
// `alt_path` (when has_alt) is the only other accepted spelling: the rootless-list corner where the
// reduced list starts with an empty segment (text would start with '/'): one "." segment in front.
struct Expected { RUri t; Str path, alt_path; bool has_alt; int regime; Expected() : has_alt(false), regime(0) {} };
bool resolve_expected(const RUri &base, const RUri &r, bool strict, Expected &e);

// RFC 3986 6.2.2 syntax-based normal form of the components selected by `mask` (library mask bits).
// `path_alts`: other spellings the statement does not distinguish (only the "relative path reduces to the
// current directory" corner: "." and "./").
enum { N_SCHEME = 1, N_USER = 2, N_HOST = 4, N_PATH = 8, N_QUERY = 16, N_FRAGMENT = 32, N_ALL = 63 };
struct Normal { RUri u; std::vector<Str> path_alts; };
void normalize(const RUri &in, unsigned mask, Normal &out);
bool path_matches(const Normal &n, const Str &path_text);

// percent-encoding helpers
Str upper_hex_triplets(const Str &s);      // %aa -> %AA (only well-formed triplets)
Str decode_unreserved(const Str &s);       // %41 -> A, %7e -> ~ ; others kept (hex upper-cased)
Str lower_outside_triplets(const Str &s);

Str to_lower(const Str &s);
int hexval(unsigned char c);

}  // namespace ref
