// Generators shared by several checks (all exhaustive over explicitly described finite sets).
#pragma once
#include "core.h"
#include "dfa.h"
#include <functional>

// All strings over the DFA's class representatives up to length L, DFS over viable prefixes:
// a dead prefix is visited but not extended.  Subtrees below depth 3 are dealt to workers round-robin.
// visit(text, len, dfa_state)
template <class F> void brute_force_classes(Ctx &ctx, int L, F visit) {
    char buf[64]; uint64_t top = 0;
    std::function<void(int, int, bool)> rec = [&](int len, int q, bool owned) {
        if (ctx.expired()) return;
        bool mine = owned;
        if (len <= 3) { mine = ctx.mine(top++); }
        if (mine) visit((const char *)buf, len, q);
        if (q == DFA_DEAD || len >= L) return;
        for (int c = 0; c < DFA_NCLASSES; c++) { buf[len] = (char)DFA_CLASS_REP[c]; rec(len + 1, DFA_T[q][c], len >= 3 ? mine : false); }
    };
    rec(0, 0, false);
}

// All strings over `alphabet` of length 0..L (no pruning). Worker split on a running index.
template <class F> void all_strings(Ctx &ctx, const Str &alphabet, int L, F visit) {
    Str cur; uint64_t idx = 0;
    std::function<void()> rec = [&]() {
        if (ctx.mine(idx++)) visit(cur);
        if ((int)cur.size() >= L) return;
        for (size_t i = 0; i < alphabet.size(); i++) { cur.push_back(alphabet[i]); rec(); cur.pop_back(); if (ctx.cut) return; }
    };
    rec();
}

// Sequences of tokens of length 0..n
template <class F> void token_seqs(const std::vector<Str> &tokens, int n, F visit) {
    std::vector<int> cur;
    std::function<void()> rec = [&]() {
        visit(cur);
        if ((int)cur.size() >= n) return;
        for (size_t i = 0; i < tokens.size(); i++) { cur.push_back((int)i); rec(); cur.pop_back(); }
    };
    rec();
}
