#include "core.h"
#include <stdarg.h>
#include <time.h>
#include <unistd.h>
#include <errno.h>
#include <sys/wait.h>
#include <sys/time.h>
#include <sys/stat.h>
#include <fstream>
#include <sstream>
#include <algorithm>

// ---------------------------------------------------------------- text helpers
Str esc(const Str &b) {
    Str o;
    static const char *hx = "0123456789abcdef";
    for (size_t i = 0; i < b.size(); i++) {
        unsigned char c = (unsigned char)b[i];
        if (c >= 0x20 && c < 0x7f && c != '\\' && c != '"' && c != '|' && c != '^') o += (char)c;
        else { o += '^'; o += hx[c >> 4]; o += hx[c & 15]; }
    }
    return o;
}
static int hv(char c) { return c >= '0' && c <= '9' ? c - '0' : c >= 'a' && c <= 'f' ? c - 'a' + 10 : c >= 'A' && c <= 'F' ? c - 'A' + 10 : 0; }
Str unesc(const Str &s) {
    Str o;
    for (size_t i = 0; i < s.size(); i++) {
        if (s[i] == '^' && i + 3 <= s.size()) { o += (char)(hv(s[i + 1]) * 16 + hv(s[i + 2])); i += 2; }
        else o += s[i];
    }
    return o;
}
Str jstr(const Str &s) {
    Str o = "\"";
    for (size_t i = 0; i < s.size(); i++) {
        unsigned char c = (unsigned char)s[i];
        if (c == '"' || c == '\\') { o += '\\'; o += (char)c; }
        else if (c < 0x20 || c >= 0x7f) { char b[8]; snprintf(b, sizeof b, "\\u%04x", c); o += b; }
        else o += (char)c;
    }
    return o + "\"";
}
std::vector<Str> split(const Str &s, char sep) {
    std::vector<Str> v; Str cur;
    for (size_t i = 0; i < s.size(); i++) { if (s[i] == sep) { v.push_back(cur); cur.clear(); } else cur += s[i]; }
    v.push_back(cur); return v;
}
Str fmt(const char *f, ...) {
    char buf[4096]; va_list ap; va_start(ap, f); int n = vsnprintf(buf, sizeof buf, f, ap); va_end(ap);
    if (n < (int)sizeof buf) return Str(buf, n < 0 ? 0 : n);
    Str big(n + 1, 0); va_start(ap, f); vsnprintf(&big[0], n + 1, f, ap); va_end(ap); big.resize(n); return big;
}
// for printing only (replay files keep the full text): long cases of the stretch family are cut
static Str cutp(const Str &s, size_t n = 400) { return s.size() <= n ? s : s.substr(0, n) + fmt("...(%zu characters in all)", s.size()); }
double now_s() { struct timespec ts; clock_gettime(CLOCK_MONOTONIC, &ts); return ts.tv_sec + ts.tv_nsec * 1e-9; }

Str jkv(const Str &k, uint64_t v) { return jstr(k) + ": " + fmt("%llu", (unsigned long long)v); }
Str jkvs(const Str &k, const Str &v) { return jstr(k) + ": " + jstr(v); }
Str jkvb(const Str &k, bool v) { return jstr(k) + ": " + (v ? "true" : "false"); }
Str jsamples(const Stats &st) {
    Str o = "\"samples\": [";
    for (size_t i = 0; i < st.samples.size(); i++) { if (i) o += ", "; o += jstr(st.samples[i]); }
    return o + "]";
}

void Stats::merge(const Stats &o) {
    for (auto &kv : o.counters) counters[kv.first] += kv.second;
    for (auto &kv : o.sets) for (auto &v : kv.second) distinct(kv.first, v);
    for (auto &s : o.samples) if (samples.size() < 24) samples.push_back(s);
}

bool Ctx::expired() {
    if (cut) return true;
    if (t_deadline > 0 && now_s() > t_deadline) { cut = true; return true; }
    return false;
}
void Ctx::violation(const Str &finding, const Str &enc, const Str &detail) {
    n_viol_total++;
    uint64_t &c = finding_counts[finding];
    c++;
    if (c <= (uint64_t)(getenv("VERIF_DUMP") ? 100000 : 25)) { Violation v; v.finding = finding; v.enc = enc; v.detail = detail; viols.push_back(v); }
}

// ---------------------------------------------------------------- crash capture
sigjmp_buf g_guard_jmp;
volatile int g_guard_armed = 0;
volatile uint64_t *g_progress_ptr = 0;
static volatile uint64_t g_last_progress = (uint64_t)-1;
static volatile int g_stall_ticks = 0;
static int g_watchdog_s = 20;

volatile uint64_t g_san_errors = 0;
extern "C" void __asan_on_error() { g_san_errors++; }
const char *signame(int sig) {
    switch (sig) {
    case SIGSEGV: return "SIGSEGV"; case SIGBUS: return "SIGBUS"; case SIGFPE: return "SIGFPE";
    case SIGILL: return "SIGILL"; case SIGABRT: return "SIGABRT"; case SIGALRM: return "HANG";
    case SIGTRAP: return "SIGTRAP"; case 77: return "a fatal sanitizer report";
    } return "SIG?";
}
static void on_fatal(int sig) {
    if (g_guard_armed) { g_guard_armed = 0; siglongjmp(g_guard_jmp, sig); }
    signal(sig, SIG_DFL); raise(sig);
}
static void on_alarm(int) {
    if (!g_progress_ptr) return;
    uint64_t p = *g_progress_ptr;
    if (p == g_last_progress && g_guard_armed) {
        if (++g_stall_ticks >= 2) { g_stall_ticks = 0; g_guard_armed = 0; siglongjmp(g_guard_jmp, SIGALRM); }
    } else g_stall_ticks = 0;
    g_last_progress = p;
}
void guard_install() {
    static char altstack[1 << 16];
    stack_t ss; ss.ss_sp = altstack; ss.ss_size = sizeof altstack; ss.ss_flags = 0; sigaltstack(&ss, 0);
    struct sigaction sa; memset(&sa, 0, sizeof sa); sa.sa_handler = on_fatal; sa.sa_flags = SA_NODEFER | SA_ONSTACK; sigemptyset(&sa.sa_mask);
    int sigs[] = { SIGSEGV, SIGBUS, SIGFPE, SIGILL, SIGABRT, SIGTRAP };
    for (int s : sigs) sigaction(s, &sa, 0);
    sa.sa_handler = on_alarm; sigaction(SIGALRM, &sa, 0);
    struct itimerval it; it.it_interval.tv_sec = g_watchdog_s / 2; it.it_interval.tv_usec = 0; it.it_value = it.it_interval;
    setitimer(ITIMER_REAL, &it, 0);
}

// coverage flavour only: workers leave through _exit, so the gcov counters are flushed by hand (weak: absent elsewhere)
extern "C" void __gcov_dump(void) __attribute__((weak));
static void cov_flush() { if (__gcov_dump) __gcov_dump(); }

// ---------------------------------------------------------------- registry
static std::vector<Check> &registry() { static std::vector<Check> r; return r; }
void register_check(const Check &c) { registry().push_back(c); }
static const Check *find_check(const Str &id) { for (auto &c : registry()) if (id == c.id) return &c; return 0; }

// ---------------------------------------------------------------- worker result files
static void write_result(const Ctx &ctx, const Str &path) {
    FILE *f = fopen(path.c_str(), "w");
    if (!f) { perror("result file"); _exit(3); }
    for (auto &kv : ctx.st.counters) fprintf(f, "C|%s|%llu\n", esc(kv.first).c_str(), (unsigned long long)kv.second);
    for (auto &kv : ctx.st.sets) for (auto &v : kv.second) fprintf(f, "D|%s|%s\n", esc(kv.first).c_str(), esc(v).c_str());
    for (auto &s : ctx.st.samples) fprintf(f, "S|%s\n", esc(s).c_str());
    for (auto &kv : ctx.finding_counts) fprintf(f, "F|%s|%llu\n", esc(kv.first).c_str(), (unsigned long long)kv.second);
    for (auto &v : ctx.viols) fprintf(f, "V|%s|%s|%s\n", esc(v.finding).c_str(), esc(v.enc).c_str(), esc(v.detail).c_str());
    fprintf(f, "X|%d\n", ctx.cut ? 1 : 0);
    fprintf(f, "END\n");
    fclose(f);
}
static bool read_result(Ctx &into, const Str &path) {
    std::ifstream in(path.c_str()); if (!in) return false;
    Str line; bool end = false;
    while (std::getline(in, line)) {
        if (line == "END") { end = true; break; }
        std::vector<Str> p = split(line, '|');
        if (p[0] == "C" && p.size() == 3) into.st.counters[unesc(p[1])] += strtoull(p[2].c_str(), 0, 10);
        else if (p[0] == "D" && p.size() == 3) into.st.distinct(unesc(p[1]), unesc(p[2]));
        else if (p[0] == "S" && p.size() == 2) { if (into.st.samples.size() < 24) into.st.samples.push_back(unesc(p[1])); }
        else if (p[0] == "F" && p.size() == 3) into.finding_counts[unesc(p[1])] += strtoull(p[2].c_str(), 0, 10);
        else if (p[0] == "V" && p.size() == 4) { Violation v; v.finding = unesc(p[1]); v.enc = unesc(p[2]); v.detail = unesc(p[3]); into.viols.push_back(v); }
        else if (p[0] == "X" && p.size() == 2) { if (p[1] == "1") into.cut = true; }
    }
    return end;
}

static Str replay_json(const Str &prop, const Violation &v) {
    return "{\n \"property\": " + jstr(prop) + ",\n \"finding\": " + jstr(v.finding) + ",\n \"case\": " + jstr(esc(v.enc)) +
           ",\n \"detail\": " + jstr(esc(v.detail)) + "\n}\n";
}
static bool json_field(const Str &doc, const Str &key, Str &out) {
    Str pat = "\"" + key + "\": \"";
    size_t p = doc.find(pat); if (p == Str::npos) return false;
    p += pat.size(); Str o;
    while (p < doc.size() && doc[p] != '"') { if (doc[p] == '\\' && p + 1 < doc.size()) { p++; } o += doc[p++]; }
    out = o; return true;
}

static int do_replay(const Str &path, bool quiet) {
    std::ifstream in(path.c_str()); if (!in) { fprintf(stderr, "cannot read %s\n", path.c_str()); return 2; }
    std::stringstream ss; ss << in.rdbuf(); Str doc = ss.str();
    Str prop, enc;
    if (!json_field(doc, "property", prop) || !json_field(doc, "case", enc)) { fprintf(stderr, "bad replay file\n"); return 2; }
    const Check *c = find_check(prop); if (!c) { fprintf(stderr, "unknown property %s\n", prop.c_str()); return 2; }
    if (unesc(enc).compare(0, 13, "WORKER-CRASH`") == 0) {
        std::vector<Str> p = split(unesc(enc), '`'); if (p.size() != 5) return 2;
        fflush(stdout); pid_t pid = fork();
        if (pid == 0) { Ctx ctx; ctx.prop = prop; ctx.tier = p[3]; ctx.worker = atoi(p[1].c_str()); ctx.nworkers = atoi(p[2].c_str()); ctx.secondary = p[4] == "1"; ctx.t_start = now_s(); ctx.t_deadline = now_s() + 600;
            g_progress_ptr = &ctx.progress; guard_install(); c->run(ctx); _exit(ctx.n_viol_total ? 1 : 0); }
        int stt = 0; waitpid(pid, &stt, 0);
        if (WIFSIGNALED(stt) || (WIFEXITED(stt) && WEXITSTATUS(stt) == 77)) { if (!quiet) printf("replayed: property=%s worker share %s/%s is killed by %s\n", prop.c_str(), p[1].c_str(), p[2].c_str(), WIFSIGNALED(stt) ? signame(WTERMSIG(stt)) : signame(77)); return 1; }
        if (WIFEXITED(stt) && WEXITSTATUS(stt) == 1) { if (!quiet) printf("replayed: property=%s worker share %s/%s reports violations\n", prop.c_str(), p[1].c_str(), p[2].c_str()); return 1; }
        if (!quiet) printf("replayed: property=%s worker share %s/%s completes without violation\n", prop.c_str(), p[1].c_str(), p[2].c_str());
        return 0;
    }
    // executed twice, each time in its own forked child (so that state the library may keep - the very thing C20 looks
    // for - cannot make the second execution differ from the first): the observations must be identical
    Ctx ctx, ctx2; Ctx *both[2] = { &ctx, &ctx2 };
    mkdir("build", 0755); mkdir("build/tmp", 0755);
    for (int i = 0; i < 2; i++) {
        Str tmp = fmt("build/tmp/replay.%d.%d", (int)getpid(), i); fflush(stdout);
        pid_t pid = fork();
        if (pid == 0) { Ctx cc; cc.prop = prop; cc.tier = "quick"; cc.replay = true; cc.t_start = now_s(); g_progress_ptr = &cc.progress; guard_install(); c->replay(cc, unesc(enc)); write_result(cc, tmp); _exit(0); }
        int stt = 0; waitpid(pid, &stt, 0);
        both[i]->prop = prop;
        if (WIFSIGNALED(stt) || (WIFEXITED(stt) && WEXITSTATUS(stt) == 77)) both[i]->violation("", unesc(enc), fmt("the replay process was killed by %s", WIFSIGNALED(stt) ? signame(WTERMSIG(stt)) : signame(77)));
        else if (!read_result(*both[i], tmp)) { fprintf(stderr, "HARNESS-ERROR replay produced no result\n"); unlink(tmp.c_str()); return 2; }
        unlink(tmp.c_str());
    }
    if (ctx.viols.size() != ctx2.viols.size()) { printf("REPLAY-NONDETERMINISTIC %s\n", path.c_str()); return 2; }
    for (size_t i = 0; i < ctx.viols.size(); i++)
        if (ctx.viols[i].finding != ctx2.viols[i].finding) { printf("REPLAY-NONDETERMINISTIC %s\n", path.c_str()); return 2; }
    // Both replays violate, with the same classification, but describe it differently: the case fails every time, and what differs is what the
    // library read from memory it does not own (heap contents, addresses).  That is a reproduced violation, not a harness that cannot replay.
    for (size_t i = 0; i < ctx.viols.size(); i++) if (ctx.viols[i].detail != ctx2.viols[i].detail) { if (!quiet) printf("note: two replays of %s both violate but differ in detail (indeterminate memory was read)\n", path.c_str()); break; }
    if (!quiet) {
        for (auto &v : ctx.viols) printf("replayed: property=%s finding=%s case=%s :: %s\n", prop.c_str(), v.finding.empty() ? "-" : v.finding.c_str(), cutp(esc(v.enc)).c_str(), cutp(esc(v.detail), 1200).c_str());
        if (ctx.viols.empty()) printf("replayed: property=%s holds on this case\n", prop.c_str());
    }
    return ctx.viols.empty() ? 0 : 1;
}

#ifndef VCHECK_NO_MAIN
int main(int argc, char **argv) {
    setvbuf(stdout, 0, _IOLBF, 0);
    Str id, tier = "quick", known, evidence_dir = "evidence", replays_dir = "replays", replay_path, stats_out, tmpdir = "build/tmp";
    int workers = 16; double deadline = 0; bool secondary = false, quiet = false, list = false;
    for (int i = 1; i < argc; i++) {
        Str a = argv[i];
        auto next = [&]() -> Str { if (i + 1 >= argc) { fprintf(stderr, "missing value for %s\n", a.c_str()); exit(2); } return argv[++i]; };
        if (a == "--tier") tier = next(); else if (a == "--workers") workers = atoi(next().c_str());
        else if (a == "--known") known = next(); else if (a == "--deadline") deadline = atof(next().c_str());
        else if (a == "--replay") replay_path = next(); else if (a == "--secondary") secondary = true;
        else if (a == "--stats-out") stats_out = next(); else if (a == "--evidence-dir") evidence_dir = next();
        else if (a == "--replays-dir") replays_dir = next(); else if (a == "--tmpdir") tmpdir = next();
        else if (a == "--quiet") quiet = true; else if (a == "--list") list = true;
        else if (a == "--watchdog") g_watchdog_s = atoi(next().c_str());
        else id = a;
    }
    if (list) { for (auto &c : registry()) printf("%s %s\n", c.id, c.level); return 0; }
    if (!replay_path.empty()) return do_replay(replay_path, quiet);
    const Check *chk = find_check(id);
    if (!chk) { fprintf(stderr, "usage: vcheck <Cxx> --tier quick|thorough | --replay file\n"); return 2; }
    if (tier != "quick" && tier != "thorough") { fprintf(stderr, "bad tier\n"); return 2; }
    std::set<Str> known_set; for (auto &k : split(known, ',')) if (!k.empty()) known_set.insert(k);
    long seed = getenv("VERIF_SEED") ? atol(getenv("VERIF_SEED")) : 0;
    mkdir("build", 0755); mkdir(tmpdir.c_str(), 0755); mkdir(evidence_dir.c_str(), 0755); mkdir(replays_dir.c_str(), 0755);
    if (!secondary) { for (int i = 0; i < 12; i++) unlink(fmt("%s/%s-viol-%d.json", replays_dir.c_str(), id.c_str(), i).c_str()); }
    else { for (int i = 0; i < 12; i++) unlink(fmt("%s/%s-viol-s%d.json", replays_dir.c_str(), id.c_str(), i).c_str()); }
    double t0 = now_s();
    if (deadline <= 0) deadline = tier == "quick" ? 100 : 3000;
    if (getenv("VERIF_DEADLINE_S")) deadline = atof(getenv("VERIF_DEADLINE_S"));
    std::vector<pid_t> pids;
    Str base = fmt("%s/%s.%d", tmpdir.c_str(), id.c_str(), (int)getpid());
    for (int w = 0; w < workers; w++) {
        fflush(stdout); fflush(stderr);
        pid_t p = fork();
        if (p < 0) { perror("fork"); return 2; }
        if (p == 0) {
            Ctx ctx; ctx.prop = id; ctx.tier = tier; ctx.worker = w; ctx.nworkers = workers; ctx.secondary = secondary;
            ctx.t_start = t0; ctx.t_deadline = t0 + deadline;
            g_progress_ptr = &ctx.progress; guard_install();
            chk->run(ctx);
            write_result(ctx, fmt("%s.w%d", base.c_str(), w));
            fflush(stdout); cov_flush(); _exit(0);
        }
        pids.push_back(p);
    }
    bool harness_error = false; std::vector<int> crashed_sig(workers, 0);
    for (int w = 0; w < workers; w++) {
        int stt = 0; waitpid(pids[w], &stt, 0);
        if (WIFSIGNALED(stt)) crashed_sig[w] = WTERMSIG(stt);
        else if (WIFEXITED(stt) && WEXITSTATUS(stt) == 77) crashed_sig[w] = 77;      // the sanitizer run-time gave up (fatal report): exitcode=77 is set by the driver
        else if (!WIFEXITED(stt) || WEXITSTATUS(stt) != 0) { fprintf(stderr, "HARNESS-ERROR worker %d ended abnormally (status 0x%x)\n", w, stt); harness_error = true; }
    }
    Ctx all; all.prop = id; all.tier = tier; all.nworkers = workers; all.secondary = secondary;
    for (int w = 0; w < workers; w++) {
        Str p = fmt("%s.w%d", base.c_str(), w);
        if (crashed_sig[w]) {
            // the library crashed outside a guarded region: the worker's whole share is the replayable case
            all.violation("", fmt("WORKER-CRASH`%d`%d`%s`%d", w, workers, tier.c_str(), secondary ? 1 : 0), fmt("worker %d of %d was killed by %s while exploring its share (crash outside a guarded call)", w, workers, signame(crashed_sig[w])));
            all.cut = true;
        } else if (!read_result(all, p)) { fprintf(stderr, "HARNESS-ERROR no complete result from worker %d\n", w); harness_error = true; }
        unlink(p.c_str());
    }
    double wall = now_s() - t0;
    if (all.st.get("harness_errors")) {
        fprintf(stderr, "HARNESS-ERROR %llu oracle self-check failures, e.g.:\n", (unsigned long long)all.st.get("harness_errors"));
        for (auto &v : all.st.sets["harness_error_examples"]) fprintf(stderr, "   %s\n", esc(v).c_str());
        harness_error = true;
    }
    // classify
    uint64_t n_unknown = 0, n_known = 0;
    std::map<Str, Violation> example;
    for (auto &v : all.viols) if (!example.count(v.finding)) example[v.finding] = v;
    Str kf_json;
    for (auto &kv : all.finding_counts) {
        bool is_known = !kv.first.empty() && known_set.count(kv.first);
        if (is_known) {
            n_known += kv.second;
            const Violation &ex = example[kv.first];
            Str rp = fmt("%s/%s-known-%s.json", replays_dir.c_str(), id.c_str(), kv.first.c_str());
            if (!secondary) { std::ofstream o(rp.c_str()); o << replay_json(id, ex); }
            printf("KNOWN-FINDING: property=%s %s (%llu cases, e.g. %s :: %s)\n", id.c_str(), kv.first.c_str(),
                   (unsigned long long)kv.second, cutp(esc(ex.enc)).c_str(), cutp(esc(ex.detail), 1200).c_str());
            if (!kf_json.empty()) kf_json += ", ";
            kf_json += jstr(kv.first) + ": " + fmt("%llu", (unsigned long long)kv.second);
        } else n_unknown += kv.second;
    }
    if (getenv("VERIF_DUMP")) { FILE *df = fopen(getenv("VERIF_DUMP"), "w"); if (df) { for (auto &v : all.viols) fprintf(df, "%s\t%s\t%s\n", v.finding.c_str(), esc(v.enc).c_str(), esc(v.detail).c_str()); fclose(df); } }
    int shown = 0, confirmed = 0;
    for (auto &v : all.viols) {
        if (!v.finding.empty() && known_set.count(v.finding)) continue;
        if (shown >= 12) break;
        Str rp = fmt("%s/%s-viol-%s%d.json", replays_dir.c_str(), id.c_str(), secondary ? "s" : "", shown);
        { std::ofstream o(rp.c_str()); o << replay_json(id, v); }
        if (confirmed < 3) {       // fresh-process confirmation before reporting
            fflush(stdout);
            pid_t p = fork();
            if (p == 0) { execl("/proc/self/exe", argv[0], "--replay", rp.c_str(), "--quiet", (char *)0); _exit(99); }
            int stt = 0; waitpid(p, &stt, 0); confirmed++;
            if (!(WIFEXITED(stt) && WEXITSTATUS(stt) == 1)) {
                fprintf(stderr, "HARNESS-ERROR violation did not reproduce from %s (status 0x%x): %s\n", rp.c_str(), stt, cutp(esc(v.detail), 1200).c_str());
                harness_error = true;
            }
        }
        printf("VIOLATION property=%s replay=%s\n", id.c_str(), rp.c_str());
        printf("  finding=%s case=%s :: %s\n", v.finding.empty() ? "-" : v.finding.c_str(), cutp(esc(v.enc)).c_str(), cutp(esc(v.detail), 1200).c_str());
        shown++;
    }
    if (n_unknown > (uint64_t)shown) printf("  (%llu violating cases in total; first %d shown)\n", (unsigned long long)n_unknown, shown);
    // evidence
    Str cov = chk->coverage(all, all.st);
    Str assum = "[";
    { std::vector<Str> as = split(chk->assumptions ? chk->assumptions : "", '|'); bool first = true;
      for (auto &a : as) { if (a.empty()) continue; if (!first) assum += ", "; assum += jstr(a); first = false; } assum += "]"; }
    Str doc = "{\n \"property_id\": " + jstr(id) + ",\n \"tier\": " + jstr(tier) + fmt(",\n \"seed\": %ld", seed) +
              ",\n \"level\": " + jstr(chk->level) + ",\n \"coverage\": {" + cov + ", " + jkvb("exhaustive", !all.cut && !harness_error) +
              ", " + jkvb("deadline_cut", all.cut) + "},\n \"assumptions\": " + assum + fmt(",\n \"wall_s\": %.2f", wall) +
              fmt(",\n \"violations\": %llu", (unsigned long long)n_unknown) +
              fmt(",\n \"known_finding_cases\": %llu", (unsigned long long)n_known) + ",\n \"known_findings\": {" + kf_json + "}" +
              fmt(",\n \"workers\": %d\n}\n", workers);
    Str ep = secondary ? stats_out : fmt("%s/%s.json", evidence_dir.c_str(), id.c_str());
    if (!ep.empty()) { std::ofstream o(ep.c_str()); o << doc; }
    printf("%s %s%s: evaluations=%llu violations=%llu known=%llu wall=%.1fs%s\n", id.c_str(), tier.c_str(), secondary ? "(sanitizer pass)" : "",
           (unsigned long long)all.st.get("evaluations"), (unsigned long long)n_unknown, (unsigned long long)n_known, wall, all.cut ? " DEADLINE-CUT" : "");
    if (harness_error) return 2;
    return n_unknown ? 1 : 0;
}
#endif
