// The specification automaton (generated) and helpers to run it.
#pragma once
#include "spec_dfa.h"
#include <string>
struct DfaRun {
    int state;        // final state (DFA_DEAD when the text left the language's prefixes)
    int lvp;          // length of the longest viable prefix (index of the first character that kills it, or n)
    int state_before; // state in which the killing character was read (or the final state when none)
    int bracket_open; // index of the '[' that opened the literal in which state_before lies, or -1
    bool accept;
};
static inline int dfa_class_of(unsigned long cp) { return cp < 256 ? DFA_CLASS[cp] : DFA_CLASS[0x80]; }
template <class C> static inline DfaRun dfa_run(const C *s, int n) {
    DfaRun r; int q = 0; r.lvp = n; r.bracket_open = -1; int br = -1;
    for (int i = 0; i < n; i++) {
        unsigned long cp = (unsigned long)(typename std::make_unsigned<C>::type)s[i];
        int t = DFA_T[q][dfa_class_of(cp)];
        if (t == DFA_DEAD) { r.lvp = i; r.state_before = q; r.state = DFA_DEAD; r.accept = false; r.bracket_open = DFA_INBRACKET[q] ? br : -1; return r; }
        if (cp == '[') br = i;
        q = t;
    }
    r.state = q; r.state_before = q; r.accept = DFA_ACCEPT[q] != 0; r.bracket_open = DFA_INBRACKET[q] ? br : -1; return r;
}
