// C11 - uriEqualsUri is component-wise identity; for library-made URIs it coincides with identity of the
// recomposed text; equivalence relation; NULL handling; arguments untouched.
#include "../core.h"
#include <deque>
#include "fixture.h"
#include "resolve_sets.h"

namespace {
struct Local { uint64_t pairs = 0, equal_pairs = 0, triples = 0, produced = 0, produced_pairs = 0, produced_equal = 0; };

static bool ref_equal(const ref::RUri &a, const ref::RUri &b) {
    if (a.scheme != b.scheme || a.userinfo != b.userinfo || a.port != b.port || a.query != b.query || a.fragment != b.fragment) return false;
    if (a.has_authority != b.has_authority || a.hostkind != b.hostkind) return false;
    if (a.hostkind == ref::HK_IP4) { if (memcmp(a.ip, b.ip, 4)) return false; }
    else if (a.hostkind == ref::HK_IP6) { if (memcmp(a.ip, b.ip, 16)) return false; }
    else if (a.host.text != b.host.text) return false;
    if (a.abs_flag() != b.abs_flag()) return false;
    return a.segments() == b.segments();
}
static std::vector<Str> family() {
    std::vector<const char *> scheme = { 0, "s", "t" }, auth = { 0, "", "h", "g", "u@h", "@h", "h:80", "h:", "1.2.3.4", "1.2.3.5", "[::1]", "[0:0:0:0:0:0:0:1]", "[::2]", "[v1.a]", "[v1.b]", "[V1.a]", "v1.a", "1.2.3.04", "::1" },
        path = { "", "/", "a", "/a", "a/", "/a/", "a/b", "/a/b", "//", "/a//", "b", "/b" }, query = { 0, "", "q" }, frag = { 0, "", "f" };
    std::vector<Str> v; std::set<Str> seen;
    for (auto sc : scheme) for (auto a : auth) for (auto p : path) for (auto q : query) for (auto f : frag) {
        Str pp = p; if (a && !pp.empty() && pp[0] != '/') continue; if (!a && pp.compare(0, 2, "//") == 0) continue;
        Str s = Str(sc ? Str(sc) + ":" : "") + (a ? Str("//") + a : "") + pp + (q ? Str("?") + q : "") + (f ? Str("#") + f : "");
        if (ref::is_uri_reference(s) && seen.insert(s).second) v.push_back(s);
    }
    // IPv6 literals: several spellings of one address (equal), and addresses one group, one digit or one position apart (different)
    for (auto h : { "[::12]", "[::0012]", "[0:0:0:0:0:0:0:12]", "[::1f]", "[::2f]", "[::]", "[::1F]", "[3:4::5:1.2.3.4]", "[3:4:0:0:0:5:102:304]", "[3:4:0:5::1.2.3.4]", "[3:4:0:5:0:0:102:304]",
                    "[::ffff:1.2.3.4]", "[::ffff:102:304]", "[::FFFF:0102:0304]", "[1::]", "[1:0::]", "[1:0:0:0:0:0:0:0]", "[0:1::]", "[fe80::abcd:10.0.0.1]", "[fe80::abcd:a00:1]", "[fe80:0:0:abcd::10.0.0.1]" })
        for (auto pre : { "s://", "//u@" }) { Str s = Str(pre) + h + "/p"; if (ref::is_uri_reference(s) && seen.insert(s).second) v.push_back(s); }
    return v;
}

template <class C> struct Runner {
    typedef Api<C> A; typedef typename A::Uri Uri;
    ArenaMM mem; Ctx *ctx; Local *lc; std::vector<RoUri<C> > fam;
    Runner(Ctx *c, Local *l) : mem(4096), ctx(c), lc(l) {}
    static Str enc(const Str &a, const Str &b) { return a + "`" + b + "`" + A::name(); }
    void setup(const std::vector<Str> &texts) { for (auto &t : texts) { RoUri<C> u = make_ro<C>(mem, t); if (u.ok) fam.push_back(u); else ctx->harness_error("family URI does not parse: " + t); } mem.arena.protect(); }
    void pair(const RoUri<C> &a, const RoUri<C> &b) {
        lc->pairs++;
        bool e = ref_equal(a.r, b.r), ab = A::EqualsUri(a.u, b.u) == URI_TRUE, ba = A::EqualsUri(b.u, a.u) == URI_TRUE;
        if (e) lc->equal_pairs++;
        if (ab != ba) ctx->violation("", enc(a.text, b.text), "uriEqualsUri is not symmetric on this pair");
        else if (ab != e) ctx->violation("", enc(a.text, b.text), fmt("uriEqualsUri says %s, component-wise identity says %s", ab ? "equal" : "different", e ? "equal" : "different"));
    }
    void run_row(size_t i) {
        int sig;
        SanWatch sw;
        if ((sig = GUARD_ENTER()) == 0) { for (size_t j = 0; j < fam.size(); j++) pair(fam[i], fam[j]); GUARD_LEAVE(); if (sw.tripped()) ctx->violation("", enc(fam[i].text, fam[i].text), "AddressSanitizer reported an invalid access while comparing this URI with the family"); }
        else ctx->violation("", enc(fam[i].text, ""), fmt("%s in uriEqualsUri (crash or write to an argument)", signame(sig)));
    }
    void triples(size_t i, size_t n) {
        for (size_t j = 0; j < n; j++) for (size_t k = 0; k < n; k++) {
            lc->triples++;
            if (A::EqualsUri(fam[i].u, fam[j].u) && A::EqualsUri(fam[j].u, fam[k].u) && !A::EqualsUri(fam[i].u, fam[k].u)) ctx->violation("", enc(fam[i].text, fam[k].text), "not transitive via " + fam[j].text);
        }
    }
    void nulls() {
        if (A::EqualsUri(0, 0) != URI_TRUE) ctx->violation("", enc("", ""), "two NULL arguments do not compare equal");
        for (size_t i = 0; i < fam.size(); i += 97) if (A::EqualsUri(0, fam[i].u) != URI_FALSE || A::EqualsUri(fam[i].u, 0) != URI_FALSE) ctx->violation("", enc(fam[i].text, ""), "NULL compares equal to a URI");
        for (size_t i = 0; i < fam.size(); i++) if (A::EqualsUri(fam[i].u, fam[i].u) != URI_TRUE) ctx->violation("", enc(fam[i].text, fam[i].text), "not reflexive");
    }
    // library-made objects: (history text, object)
    struct Made { Str how; Uri u; Str text; };
    void produce(std::vector<Made> &out, const std::vector<Str> &seeds, const std::vector<Str> &bases, std::vector<std::basic_string<C> > &keep) {
        keep.reserve(seeds.size() + bases.size() + 8);
        std::vector<Uri> bu(bases.size());
        for (size_t i = 0; i < bases.size(); i++) { keep.push_back(widen<C>(bases[i])); const C *ep; A::ParseSingleUriEx(&bu[i], keep.back().data(), keep.back().data() + keep.back().size(), &ep); }
        for (auto &s : seeds) {
            keep.push_back(widen<C>(s)); const std::basic_string<C> &w = keep.back(); const C *ep;
            auto fresh = [&](Uri *u) { return A::ParseSingleUriEx(u, w.data(), w.data() + w.size(), &ep) == URI_SUCCESS; };
            auto push = [&](const Str &how, Uri &u) { Made m; m.how = how; m.u = u; int rc; m.text = to_text<C>(u, &rc); out.push_back(m); };
            Uri u;
            if (fresh(&u)) push("parse(" + s + ")", u);
            if (fresh(&u) && A::NormalizeSyntax(&u) == URI_SUCCESS) push("normalize(" + s + ")", u);
            if (fresh(&u) && A::MakeOwner(&u) == URI_SUCCESS) push("makeOwner(" + s + ")", u);
            if (fresh(&u) && A::MakeOwner(&u) == URI_SUCCESS && A::NormalizeSyntax(&u) == URI_SUCCESS) push("normalize(makeOwner(" + s + "))", u);
            if (fresh(&u) && A::NormalizeSyntaxEx(&u, URI_NORMALIZE_SCHEME | URI_NORMALIZE_PATH) == URI_SUCCESS && A::NormalizeSyntax(&u) == URI_SUCCESS) push("normalize(normalize9(" + s + "))", u);
            for (size_t bi = 0; bi < bases.size(); bi++) {
                Uri src; if (!fresh(&src)) continue;
                Uri d; if (A::AddBaseUri(&d, &src, &bu[bi]) == URI_SUCCESS) { push("resolve(" + s + "," + bases[bi] + ")", d);
                    Uri d2; if (A::AddBaseUri(&d2, &src, &bu[bi]) == URI_SUCCESS && A::NormalizeSyntax(&d2) == URI_SUCCESS) push("normalize(resolve(" + s + "," + bases[bi] + "))", d2); }
                for (int dr = 0; dr < 2; dr++) { Uri e; if (A::RemoveBaseUri(&e, &src, &bu[bi], dr) == URI_SUCCESS) push(fmt("shorten%d(", dr) + s + "," + bases[bi] + ")", e); }
                // the parsed source stays alive: results borrow its text
                keep_uris.push_back(src);
            }
        }
        // every text that some operation produced but no seed spells: the URI read from that text joins the objects (once per text), so a
        // produced object always meets the parse of its own text - equal texts, so they must compare equal
        { std::set<Str> parsed; for (auto &m : out) if (m.how.compare(0, 6, "parse(") == 0) parsed.insert(m.text);
          size_t n0 = out.size();
          for (size_t i = 0; i < n0; i++) { Str t = out[i].text; if (!parsed.insert(t).second) continue; keep_re.push_back(widen<C>(t)); const std::basic_string<C> &w = keep_re.back(); const C *ep; Uri u;
              if (A::ParseSingleUriEx(&u, w.data(), w.data() + w.size(), &ep) == URI_SUCCESS) { Made m; m.how = "reparse(" + t + ")"; m.u = u; int rc; m.text = to_text<C>(u, &rc); out.push_back(m); } } }
    }
    std::vector<Uri> keep_uris; std::deque<std::basic_string<C> > keep_re;   // a deque: its elements never move
    // (c) every sub-range [j, i) of one shared buffer that parses, all pairs: components of two URIs then start (or end) at the very
    //     same address although their texts differ, which is what a pointer-identity shortcut in a comparison would trip over
    void shared_buffer(const Str &text) {
        std::basic_string<C> w = widen<C>(text); struct Sub { size_t j, i; Uri u; ref::RUri r; }; std::vector<Sub> subs; subs.reserve(w.size() * w.size() / 2 + 2);
        for (size_t j = 0; j <= w.size(); j++) for (size_t i = j; i <= w.size(); i++) {
            if (j > 0 && j < w.size() && i != w.size() && (j % 3)) continue;       // all prefixes, all suffixes, and every third start for inner ranges
            Sub s; s.j = j; s.i = i; const C *ep; if (!ref::decompose(text.substr(j, i - j), s.r)) continue;
            if (A::ParseSingleUriEx(&s.u, w.data() + j, w.data() + i, &ep) != URI_SUCCESS) { ctx->harness_error("shared-buffer range does not parse: " + text.substr(j, i - j)); continue; }
            subs.push_back(s);
        }
        for (auto &a : subs) for (auto &b : subs) {
            lc->pairs++; bool e = ref_equal(a.r, b.r), ab = A::EqualsUri(&a.u, &b.u) == URI_TRUE; if (e) lc->equal_pairs++;
            if (ab != e) ctx->violation("", "shared`" + text + fmt("`%zu.%zu.%zu.%zu.", a.j, a.i, b.j, b.i) + A::name(), fmt("ranges [%zu,%zu) '%s' and [%zu,%zu) '%s' of one buffer: uriEqualsUri says %s, component-wise identity says %s", a.j, a.i, text.substr(a.j, a.i - a.j).c_str(), b.j, b.i, text.substr(b.j, b.i - b.j).c_str(), ab ? "equal" : "different", e ? "equal" : "different"));
        }
        for (auto &s : subs) A::FreeUriMembers(&s.u);
    }
};
static const char *SHARED_TEXTS[] = { "s://u@h:80/a/b?q#f", "//[::1]:8/p//q?x#y", "a/b/c", "/a//b/", "s:aa/aa?aa#aa", "//1.2.3.4:1?#", "s://uu@hh:11/pp?qq#ff", "//[v1.ab]/ab", "aaaa", "a:a:a/a:a" };

static std::vector<Str> produce_seeds(int n) {
    std::vector<Str> v = resolve_refs(n, false); std::vector<Str> extra = { "s:/", "s:", "s:/a", "s:a", "s://h", "s://h/", "s://h/a/../", "s:/a/..", "t:/a/..", "s:/.//a", "S://H/%41", "s://h/A", "s://1%2E2.3.4/a", "s://1.2.3.4/a", "s://%31.2.3.4/a", "s://255.255%2E255.255/a", "s://255.255.255.255/a", "s://u@1.2.3.4", "s://u@1%2E2.3.4", "s://u@1.2.3.4:", "s://u@h", "s://u@[::1]", "s://1.2.3.4" /* the text ends right behind the host */, "./b:", "a/../b:", "./a:b:", "x/../y:/z", "s:./b:" };
    v.insert(v.end(), extra.begin(), extra.end()); return v;
}

void run(Ctx &ctx) {
    Local lc; std::vector<Str> fam = family();
    Runner<char> ra(&ctx, &lc); Runner<wchar_t> rw(&ctx, &lc); ra.setup(fam); rw.setup(fam);
    for (size_t i = 0; i < ra.fam.size(); i++) { if (!ctx.mine(i)) continue; if (ctx.expired()) break; ctx.progress++; ra.run_row(i); rw.run_row(i); if (i < 150) { ra.triples(i, 150); } }
    if (ctx.worker == 0) { ra.nulls(); rw.nulls(); }
    { int k = 0; for (const char *t : SHARED_TEXTS) { if (!ctx.mine(k++)) continue; int sig; if ((sig = GUARD_ENTER()) == 0) { ra.shared_buffer(t); rw.shared_buffer(t); GUARD_LEAVE(); ctx.st.count("shared_buffer_texts"); } else ctx.violation("", Str("shared`") + t + "`0.0.0.0.A", fmt("%s while comparing ranges of one buffer", signame(sig))); } }
    // library-made objects: equality <=> identical recomposed text
    {
        std::vector<Str> seeds = produce_seeds((ctx.secondary ? 1 : ctx.quick() ? 2 : 3) + ctx.bonus), bases = { "s://h/a/b", "s:/a", "s:a/b", "s://h", "s:/" };
        std::vector<typename Runner<char>::Made> made; std::vector<std::string> keep;
        ra.produce(made, seeds, bases, keep); lc.produced = made.size();
        for (size_t i = 0; i < made.size(); i++) {
            if (!ctx.mine(i)) continue; if (ctx.expired()) break; ctx.progress++;
            for (size_t j = 0; j < made.size(); j++) {
                lc.produced_pairs++;
                bool eq = Api<char>::EqualsUri(&made[i].u, &made[j].u) == URI_TRUE, same = made[i].text == made[j].text;
                if (same) lc.produced_equal++;
                if (eq != same) ctx.violation("", "made`" + made[i].how + "`" + made[j].how, fmt("uriEqualsUri says %s but the recomposed texts are '%s' and '%s'", eq ? "equal" : "different", made[i].text.c_str(), made[j].text.c_str()));
            }
        }
    }
    ctx.st.count("evaluations", lc.pairs + lc.produced_pairs + lc.triples); ctx.st.count("family_pairs", lc.pairs); ctx.st.count("family_equal_pairs", lc.equal_pairs); ctx.st.count("triples", lc.triples);
    ctx.st.count("produced_pairs", lc.produced_pairs); ctx.st.count("produced_pairs_same_text", lc.produced_equal);
    if (ctx.worker == 0) { ctx.st.count("family", fam.size()); ctx.st.count("produced_objects", lc.produced); ctx.st.sample("s:/a vs s:a"); ctx.st.sample("//[::1] vs //[0:0:0:0:0:0:0:1]"); ctx.st.sample("resolve(../,s:/) vs resolve(../.,s:/)"); }
}
void replay(Ctx &ctx, const Str &enc) {
    std::vector<Str> p = split(enc, '`'); if (p.size() != 3) return; Local lc;
    if (p[0] == "made") {   // re-create every library-made object and compare the two named ones
        Runner<char> r(&ctx, &lc); std::vector<typename Runner<char>::Made> made; std::vector<std::string> keep;
        r.produce(made, produce_seeds(3 + ctx.bonus), { "s://h/a/b", "s:/a", "s:a/b", "s://h", "s:/" }, keep);
        const typename Runner<char>::Made *a = 0, *b = 0; for (auto &m : made) { if (m.how == p[1] && !a) a = &m; if (m.how == p[2] && !b) b = &m; }
        if (a && b) { bool eq = Api<char>::EqualsUri(&a->u, &b->u) == URI_TRUE, same = a->text == b->text; if (eq != same) ctx.violation("", enc, fmt("uriEqualsUri says %s but the recomposed texts are '%s' and '%s'", eq ? "equal" : "different", a->text.c_str(), b->text.c_str())); }
        return;
    }
    if (p[0] == "shared") { if (p[2].size() && p[2][p[2].size() - 1] == 'A') { Runner<char> r(&ctx, &lc); r.shared_buffer(p[1]); } else { Runner<wchar_t> r(&ctx, &lc); r.shared_buffer(p[1]); } return; }
    std::vector<Str> two; two.push_back(p[0]); if (!p[1].empty()) two.push_back(p[1]);
    if (p[2] == "A") { Runner<char> r(&ctx, &lc); r.setup(two); if (r.fam.size() == two.size()) r.pair(r.fam[0], r.fam[two.size() - 1]); }
    else { Runner<wchar_t> r(&ctx, &lc); r.setup(two); if (r.fam.size() == two.size()) r.pair(r.fam[0], r.fam[two.size() - 1]); }
}
Str coverage(const Ctx &, const Stats &st) {
    return jkv("states", st.get("family") + st.get("produced_objects")) + ", " + jkv("transitions", st.get("family_pairs") + st.get("produced_pairs")) + ", " + jkv("traces_validated_against_impl", st.get("family_pairs") + st.get("produced_pairs")) + ", " +
           jkv("evaluations", st.get("evaluations")) + ", " + jkv("distinct_nontrivial", st.get("family_equal_pairs") + st.get("produced_pairs_same_text")) + ", " +
           jkvs("rule", "cases = ordered pairs of URI objects. (a) all pairs of a family containing every one-component difference (3 schemes x 16 authorities incl. IPv4/IPv6-by-value/IPvFuture variants x 12 paths x 3 queries x 3 fragments, valid combinations), both character types, arguments in read-only memory, judged by component-wise identity of the reference decomposition; (b) all pairs of library-made objects (parse, normalise, makeOwner, resolve, normalise(resolve), shorten in both modes over a token-sequence seed set x 5 bases), judged by identity of the recomposed text; (c) all triples of a 150-element subset for transitivity; NULL arguments; reflexivity. distinct_nontrivial = number of pairs where the oracle says EQUAL (the non-trivial side), counted.") + ", " +
           jkv("family", st.get("family")) + ", " + jkv("family_pairs", st.get("family_pairs")) + ", " + jkv("family_equal_pairs", st.get("family_equal_pairs")) + ", " + jkv("triples", st.get("triples")) + ", " +
           jkv("produced_objects", st.get("produced_objects")) + ", " + jkv("produced_pairs", st.get("produced_pairs")) + ", " + jkv("produced_pairs_same_text", st.get("produced_pairs_same_text")) + ", " + jkv("shared_buffer_texts", st.get("shared_buffer_texts")) + ", " + jsamples(st);
}
Check chk = { "C11", "model_checking", run, replay, coverage, "states are URI objects, transitions are comparisons; explicit enumeration of all pairs of two finite object sets|component identity is judged on the reference decomposition of the source text" };
REGISTER_CHECK(chk);
}
