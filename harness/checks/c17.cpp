// C17 - query lists round-trip; composed output fits the stated size; size arithmetic beyond INT_MAX is refused.
#include "../core.h"
#include "../plat.h"
#include "../mm.h"
#include "../obs.h"
#include "../gen.h"
#include <limits.h>
#include <errno.h>
#include <fcntl.h>
#include "checks/corpus.h"

extern "C" void vf_lib_free(void *);
namespace {
struct Local { uint64_t lists = 0, compose_calls = 0, too_small = 0, dissects = 0, splitter = 0, big = 0, big_refused = 0, dropped_items = 0; };
typedef std::pair<Str, std::pair<bool, Str> > Item;     // key, (has value, value)

static Str ref_escape(const Str &s, bool plus, bool nb) {
    static const char *HX = "0123456789ABCDEF"; Str o;
    for (size_t i = 0; i < s.size(); i++) {
        unsigned char c = (unsigned char)s[i];
        if (ref::is_unreserved(c)) o += (char)c; else if (c == ' ' && plus) o += '+';
        else if (nb && (c == 13 || c == 10)) { if (c == 13 && i + 1 < s.size() && s[i + 1] == 10) i++; o += "%0D%0A"; }
        else { o += '%'; o += HX[c >> 4]; o += HX[c & 15]; }
    }
    return o;
}
static Str crlf(const Str &s) { Str o; for (size_t i = 0; i < s.size(); i++) { if (s[i] == 13) { if (i + 1 < s.size() && s[i + 1] == 10) i++; o += "\r\n"; } else if (s[i] == 10) o += "\r\n"; else o += s[i]; } return o; }
static Str ref_unescape(const Str &s, bool plus, int mode) {
    Str o; bool prev_cr = false;
    for (size_t i = 0; i < s.size();) {
        if (s[i] == '%' && i + 2 < s.size() && ref::is_hex((unsigned char)s[i + 1]) && ref::is_hex((unsigned char)s[i + 2])) {
            int code = ref::hexval((unsigned char)s[i + 1]) * 16 + ref::hexval((unsigned char)s[i + 2]);
            if (code == 10) { if (mode == URI_BR_DONT_TOUCH) o += '\n'; else if (!prev_cr) o += mode == URI_BR_TO_LF ? "\n" : mode == URI_BR_TO_CRLF ? "\r\n" : "\r"; prev_cr = false; }
            else if (code == 13) { o += mode == URI_BR_TO_LF ? "\n" : mode == URI_BR_TO_CRLF ? "\r\n" : "\r"; prev_cr = true; }
            else { o += (char)code; prev_cr = false; }
            i += 3;
        } else { o += (s[i] == '+' && plus) ? ' ' : s[i]; prev_cr = false; i++; }
    }
    size_t z = o.find('\0'); if (z != Str::npos) o.resize(z);       // a decoded NUL ends the C string
    return o;
}
static Str ref_compose(const std::vector<Item> &L, bool plus, bool nb) {
    Str o; for (size_t i = 0; i < L.size(); i++) { if (i) o += '&'; o += ref_escape(L[i].first, plus, nb); if (L[i].second.first) o += "=" + ref_escape(L[i].second.second, plus, nb); } return o;
}
static std::vector<Item> ref_dissect(const Str &q, bool plus, int mode) {
    std::vector<Item> v; if (q.empty()) return v; size_t st = 0;
    for (;;) {
        size_t e = q.find('&', st); Str piece = q.substr(st, e == Str::npos ? Str::npos : e - st);
        size_t eq = piece.find('='); Item it;
        if (eq == Str::npos) { it.first = ref_unescape(piece, plus, mode); it.second.first = false; if (!piece.empty()) v.push_back(it); }
        else { it.first = ref_unescape(piece.substr(0, eq), plus, mode); it.second.first = true; it.second.second = ref_unescape(piece.substr(eq + 1), plus, mode); v.push_back(it); }
        if (e == Str::npos) break; st = e + 1;
    }
    return v;
}
static Str show(const std::vector<Item> &L) { Str s = "["; for (auto &it : L) s += "(" + esc(it.first) + "," + (it.second.first ? esc(it.second.second) : Str("NULL")) + ")"; return s + "]"; }
static Str enc_list(const std::vector<Item> &L) { Str s; for (size_t i = 0; i < L.size(); i++) { if (i) s += "\x01"; s += L[i].first + "\x02" + (L[i].second.first ? "v" + L[i].second.second : Str("n")); } return s; }
static std::vector<Item> dec_list(const Str &s) { std::vector<Item> L; if (s.empty()) return L; for (auto &p : split(s, '\x01')) { std::vector<Str> kv = split(p, '\x02'); Item it; it.first = kv[0]; it.second.first = kv.size() > 1 && kv[1][0] == 'v'; if (it.second.first) it.second.second = kv[1].substr(1); L.push_back(it); } return L; }

template <class C> struct Runner {
    typedef Api<C> A; typedef typename A::QList QL;
    OutBuf out; FenceBuf in; Ledger led; Ctx *ctx; Local *lc;
    Runner(Ctx *c, Local *l, size_t op = 8, size_t ip = 4) : out(op), in(ip), ctx(c), lc(l) {}
    template <class LT> static bool same_list(const LT *q, const std::vector<Item> &e, Str &got) {
        std::vector<Item> g; for (; q; q = q->next) { Item it; it.first = narrow<C>(q->key, q->key + std::char_traits<C>::length(q->key)); it.second.first = q->value != 0; if (q->value) it.second.second = narrow<C>(q->value, q->value + std::char_traits<C>::length(q->value)); g.push_back(it); }
        got = show(g); return g == e;
    }
    void list_case(const std::vector<Item> &L, bool all_caps, int only_plus = -1, int only_nb = -1) {
        lc->lists++; ctx->progress++;
        std::vector<std::basic_string<C> > ks(L.size()), vs(L.size()); std::vector<QL> nodes(L.size());
        for (size_t i = 0; i < L.size(); i++) { ks[i] = widen<C>(L[i].first); vs[i] = widen<C>(L[i].second.second); nodes[i].key = ks[i].c_str(); nodes[i].value = L[i].second.first ? vs[i].c_str() : 0; nodes[i].next = i + 1 < L.size() ? &nodes[i + 1] : 0; }
        for (int plus = 0; plus < 2; plus++) for (int nb = 0; nb < 2; nb++) {
            if ((only_plus >= 0 && plus != only_plus) || (only_nb >= 0 && nb != only_nb)) continue;
            Str enc = "L`" + enc_list(L) + fmt("`%d`%d`%s", plus, nb, A::name()); Str what; int sig;
            Str expect = ref_compose(L, plus, nb); int len = (int)expect.size();
            if ((sig = GUARD_ENTER()) != 0) { ctx->violation("", enc, fmt("%s in query composition / dissection", signame(sig))); led.reset(); continue; }
            int req = -9; int rc = (plus && nb) ? A::ComposeQueryCharsRequired(&nodes[0], &req) : A::ComposeQueryCharsRequiredEx(&nodes[0], &req, plus, nb);
            if (rc != URI_SUCCESS) what = fmt("ComposeQueryCharsRequired rc=%d", rc);
            else if (req < len) what = fmt("charsRequired=%d is smaller than the composed text (%d characters)", req, len);
            else {
                std::vector<int> caps;
                if (all_caps) for (int c = 0; c <= req + 1; c++) caps.push_back(c); else { int cs[] = { 0, 1, len, len + 1, req, req + 1 }; caps.assign(cs, cs + 6); }
                for (size_t ci = 0; ci < caps.size() && what.empty(); ci++) for (int cw = 0; cw < 2 && what.empty(); cw++) {
                    int cap = caps[ci]; lc->compose_calls++;
                    C *dst = (C *)out.end_minus((size_t)cap * sizeof(C)); int written = -7;
                    rc = (plus && nb && cw) ? A::ComposeQuery(dst, &nodes[0], cap, &written) : A::ComposeQueryEx(dst, &nodes[0], cap, cw ? &written : 0, plus, nb);
                    if (rc == URI_SUCCESS) {
                        size_t n = 0; while ((int)n < cap && dst[n]) n++;
                        if ((int)n >= cap) what = fmt("capacity %d: success but no terminator inside the buffer", cap);
                        else { Str got = narrow<C>(dst, dst + n); if (got != expect) what = fmt("capacity %d: composed '%s', expected '%s'", cap, esc(got).c_str(), esc(expect).c_str()); else if (cw && written != len + 1) what = fmt("charsWritten=%d, expected %d", written, len + 1); }
                    } else if (rc == URI_ERROR_OUTPUT_TOO_LARGE) { lc->too_small++; if (cap >= req + 1) what = fmt("capacity %d >= charsRequired %d + 1 but composing was refused", cap, req); }
                    else what = fmt("capacity %d: unexpected rc=%d", cap, rc);
                }
                for (size_t i = 0; i < expect.size() && what.empty(); i++) { unsigned char c = (unsigned char)expect[i]; if (!(ref::is_unreserved(c) || ref::is_subdelim(c) || c == '%' || c == ':' || c == '@' || c == '/' || c == '?')) what = "composed text has a character that is illegal in a query"; }
            }
            // round trip through dissect with matching options, default and ledger manager
            std::vector<Item> want; for (auto &it : L) { if (it.first.empty() && !it.second.first) { lc->dropped_items++; continue; } Item w = it; if (nb) { w.first = crlf(w.first); w.second.second = crlf(w.second.second); } want.push_back(w); }
            for (int mgr = 0; mgr < 3 && what.empty(); mgr++) {        // 2: default manager and no item counter (the parameter is optional)
                std::basic_string<C> q = widen<C>(expect); const C *p = (const C *)in.put_end(q.data(), q.size() * sizeof(C));
                QL *dl = (QL *)0x1; int cnt = -3; lc->dissects++;
                if (mgr == 2) { rc = A::DissectQueryMallocEx(&dl, NULL, p, p + q.size(), plus, URI_BR_DONT_TOUCH); cnt = (int)want.size(); }
                else if (mgr) { led.clear_injection(); rc = A::DissectQueryMallocExMm(&dl, &cnt, p, p + q.size(), plus, URI_BR_DONT_TOUCH, &led.mm); }
                else if (plus) rc = A::DissectQueryMalloc(&dl, &cnt, p, p + q.size()); else rc = A::DissectQueryMallocEx(&dl, &cnt, p, p + q.size(), plus, URI_BR_DONT_TOUCH);
                Str got;
                if (rc != URI_SUCCESS) what = fmt("dissect rc=%d", rc);
                else if (!same_list(dl, want, got)) what = Str(mgr == 2 ? "without an item counter, " : "") + "dissect(compose(L)) = " + got + ", expected " + show(want);
                else if (cnt != (int)want.size()) what = fmt("itemCount=%d, list has %zu items", cnt, want.size());
                if (rc == URI_SUCCESS) { if (mgr == 1) A::FreeQueryListMm(dl, &led.mm); else A::FreeQueryList(dl); }
                if (mgr == 1) { if (what.empty() && (!led.live.empty() || !led.errors.empty())) what = led.errors.empty() ? fmt("%zu blocks outstanding after uriFreeQueryList", led.live.size()) : led.errors[0]; if (!led.live.empty() || !led.errors.empty()) led.reset(); }
            }
            // Malloc variant
            if (what.empty()) {
                C *ms = 0; led.clear_injection(); rc = A::ComposeQueryMallocExMm(&ms, &nodes[0], plus, nb, &led.mm);
                if (rc != URI_SUCCESS || !ms) what = fmt("ComposeQueryMallocExMm rc=%d", rc);
                else { Str got = narrow<C>(ms, ms + std::char_traits<C>::length(ms)); if (got != expect) what = "ComposeQueryMalloc text differs"; led.mm.free(&led.mm, ms); if (what.empty() && !led.live.empty()) what = "blocks outstanding after freeing the composed string"; if (what.empty() && !led.errors.empty()) what = "composing into the block the manager handed out: " + led.errors[0]; }
                if (!led.live.empty() || !led.errors.empty()) led.reset();
            }
            // the same through the C library allocator: uriComposeQueryMalloc (both options on) / uriComposeQueryMallocEx
            if (what.empty()) {
                C *ms = 0; long bal0 = g_libc.balance; rc = (plus && nb) ? A::ComposeQueryMalloc(&ms, &nodes[0]) : A::ComposeQueryMallocEx(&ms, &nodes[0], plus, nb);
                if (rc != URI_SUCCESS || !ms) what = fmt("%s rc=%d", (plus && nb) ? "ComposeQueryMalloc" : "ComposeQueryMallocEx", rc);
                else { Str got = narrow<C>(ms, ms + std::char_traits<C>::length(ms)); if (got != expect) what = "ComposeQueryMalloc[Ex] text '" + esc(got) + "' differs from '" + esc(expect) + "'"; vf_lib_free(ms); if (what.empty() && g_libc.balance != bal0) what = "libc blocks outstanding after freeing the composed string"; }
            }
            GUARD_LEAVE();
            if (!what.empty()) ctx->violation("", enc, what + " list=" + show(L));
        }
    }
    void splitter_case(const Str &s, int only_plus = -1, int only_mode = -1) {
        std::basic_string<C> q = widen<C>(s); lc->splitter++; ctx->progress++;
        for (int plus = 0; plus < 2; plus++) for (int mode = 0; mode < 4; mode += 3) {
            if ((only_plus >= 0 && plus != only_plus) || (only_mode >= 0 && mode != only_mode)) continue;
            Str enc = "S`" + s + fmt("`%d`%d`%s", plus, mode, A::name()); int sig; Str what;
            if ((sig = GUARD_ENTER()) != 0) { ctx->violation("", enc, fmt("%s while dissecting (read outside the range?)", signame(sig))); continue; }
            const C *p = (const C *)in.put_end(q.data(), q.size() * sizeof(C)); QL *dl = 0; int cnt = -3;
            int rc = A::DissectQueryMallocEx(&dl, &cnt, p, p + q.size(), plus, (UriBreakConversion)mode);
            std::vector<Item> want = ref_dissect(s, plus, mode); Str got;
            if (rc != URI_SUCCESS) what = fmt("rc=%d", rc); else if (!same_list(dl, want, got)) what = "got " + got + ", expected " + show(want); else if (cnt != (int)want.size()) what = fmt("itemCount=%d for %zu items", cnt, want.size());
            if (rc == URI_SUCCESS) A::FreeQueryList(dl);
            if (what.empty()) { QL *d2 = 0; int rc2 = A::DissectQueryMallocEx(&d2, NULL, p, p + q.size(), plus, (UriBreakConversion)mode);      // the item counter is optional
                if (rc2 != rc) what = fmt("without an item counter rc=%d, with one rc=%d", rc2, rc); else if (rc2 == URI_SUCCESS && !same_list(d2, want, got)) what = "without an item counter got " + got + ", expected " + show(want);
                if (rc2 == URI_SUCCESS) A::FreeQueryList(d2); }
            GUARD_LEAVE();
            if (!what.empty()) ctx->violation("", enc, what);
        }
    }
};

// one long run of a byte, mapped from a 1 MiB file over and over (costs no memory), NUL-terminated
struct BigRun {
    char *base; size_t len;
    BigRun(char fill, size_t n) : base(0), len(n) {
        size_t chunk = 1 << 20; int fd = memfd_create("run", MFD_CLOEXEC); std::vector<char> buf(chunk, fill);
        if (fd < 0 || write(fd, buf.data(), chunk) != (ssize_t)chunk) plat_die("bigrun");
        size_t total = ((n + chunk) / chunk) * chunk + 4096;
        base = (char *)mmap(0, total, PROT_NONE, MAP_PRIVATE | MAP_ANONYMOUS, -1, 0); if (base == MAP_FAILED) plat_die("bigrun reserve");
        for (size_t off = 0; off + chunk <= total - 4096; off += chunk) if (mmap(base + off, chunk, PROT_READ, MAP_SHARED | MAP_FIXED, fd, 0) == MAP_FAILED) plat_die("bigrun map");
        size_t end = total - 4096; if (mmap(base + end, 4096, PROT_READ, MAP_PRIVATE | MAP_ANONYMOUS | MAP_FIXED, -1, 0) == MAP_FAILED) plat_die("bigrun tail");
        runs = end; close(fd);
    }
    size_t runs;
    const char *str(size_t l) const { return base + runs - l; }   // NUL-terminated string of l fill bytes
};

static const long LENS_Q[] = { 0, INT_MAX / 6 - 1, INT_MAX / 6, INT_MAX / 3 }, LENS_T[] = { 0, 1, INT_MAX / 6 - 1, INT_MAX / 6, INT_MAX / 3 - 1, INT_MAX / 3 };
struct BigFamily {
    BigRun ra, rl; const long *lens; int nl; bool quick;
    BigFamily(bool q, int nl_override = 0) : ra('a', (size_t)INT_MAX / 3 + 16), rl('\n', (size_t)INT_MAX / 3 + 16), lens(q ? LENS_Q : LENS_T), nl(q ? 4 : 6), quick(q) { if (nl_override) nl = nl_override; }
    // returns false when the combination index does not denote a list
    bool one(Ctx &ctx, Local &lc, int items, int c, int fillsel, int nb) {
        typedef UriQueryListA QL; QL n[2]; int x = c; double true_min = 0, worst = 0; Str desc;
        const BigRun &r = fillsel ? rl : ra;
        for (int i = 0; i < items; i++) {
            int ki = x % (nl + 1); x /= (nl + 1); int vi = x % (nl + 1); x /= (nl + 1);
            if (ki == nl) return false;
            n[i].key = r.str((size_t)lens[ki]); n[i].value = vi == nl ? 0 : r.str((size_t)lens[vi]); n[i].next = i + 1 < items ? &n[i + 1] : 0;
            double f = fillsel ? (nb ? 6 : 3) : 1, wf = nb ? 6 : 3;
            true_min += (i ? 1 : 0) + f * lens[ki] + (vi == nl ? 0 : 1 + f * lens[vi]); worst += (i ? 1 : 0) + wf * lens[ki] + (vi == nl ? 0 : 1 + wf * lens[vi]);
            desc += fmt("(%ld,%s)", lens[ki], vi == nl ? "NULL" : fmt("%ld", lens[vi]).c_str());
        }
        lc.big++; ctx.progress++; int req = -12345; int sig; Str enc = fmt("B`%d`%d`%d`%d`%s%d", items, c, fillsel, nb, quick ? "q" : "t", nl);
        if ((sig = GUARD_ENTER()) != 0) { ctx.violation("", enc, fmt("%s (arithmetic trap or crash) in uriComposeQueryCharsRequiredExA for lengths %s", signame(sig), desc.c_str())); return true; }
        int rc = uriComposeQueryCharsRequiredExA(&n[0], &req, URI_TRUE, nb); GUARD_LEAVE();
        if (rc == URI_SUCCESS) { if ((double)req < true_min || req < 0) ctx.violation("", enc, fmt("key/value lengths %s %s: success with charsRequired=%d although the text needs at least %.0f characters (sum wrapped)", desc.c_str(), fillsel ? "of line feeds" : "of 'a'", req, true_min)); }
        else if (rc == URI_ERROR_OUTPUT_TOO_LARGE) { lc.big_refused++; if (worst <= (double)INT_MAX / 2) ctx.violation("", enc, fmt("lengths %s refused although the worst case %.0f is far below INT_MAX", desc.c_str(), worst)); }
        else ctx.violation("", enc, fmt("unexpected rc=%d", rc));
        // the writing path with the same list and a 16-character buffer that ends at an inaccessible page: it has to be refused (or to
        // fit), whatever the item lengths do to the size arithmetic
        { static OutBuf small(1); char *dst = (char *)small.end_minus(16); int written = -7;
          if ((sig = GUARD_ENTER()) != 0) { ctx.violation("", enc, fmt("%s: uriComposeQueryExA wrote beyond its 16-character buffer for lengths %s", signame(sig), desc.c_str())); return true; }
          int rc2 = uriComposeQueryExA(dst, &n[0], 16, &written, URI_TRUE, nb); GUARD_LEAVE(); lc.big++;
          if (rc2 == URI_SUCCESS) { if (true_min > 15 || written < 1 || written > 16) ctx.violation("", enc, fmt("lengths %s: composing into 16 characters reports success (charsWritten=%d)", desc.c_str(), written)); }
          else if (rc2 != URI_ERROR_OUTPUT_TOO_LARGE) ctx.violation("", enc, fmt("lengths %s: composing into 16 characters returns %d", desc.c_str(), rc2)); }
        return true;
    }
};

// The writing path with a REAL buffer of INT_MAX characters (address space from mmap; it ends at an inaccessible page) and a list whose
// text does not fit: two items fit, the third has to be refused - a write position or a space check kept in a wrapped int writes on instead.
// Costs 2 GiB of touched memory and about three seconds; one worker.
static void giant_write(Ctx &ctx, Local &lc) {
    static const struct { long len; int nb; } GW[] = { { (long)INT_MAX / 6 - 1, 0 }, { (long)INT_MAX / 12 - 1, 1 } };
    BigRun rl('\n', (size_t)INT_MAX / 6 + 16);
    for (auto &g : GW) {
        size_t cap = (size_t)INT_MAX, total = ((cap + 4095) / 4096 + 1) * 4096; char *raw = (char *)mmap(0, total, PROT_READ | PROT_WRITE, MAP_PRIVATE | MAP_ANONYMOUS | MAP_NORESERVE, -1, 0); if (raw == (char *)MAP_FAILED) { ctx.harness_error("no address space for the giant write"); return; }
        mprotect(raw + total - 4096, 4096, PROT_NONE); char *dst = raw + total - 4096 - cap;
        UriQueryListA n[3]; for (int i = 0; i < 3; i++) { n[i].key = rl.str((size_t)g.len); n[i].value = 0; n[i].next = i < 2 ? &n[i + 1] : 0; }
        int written = -7, sig; Str enc = fmt("G`%ld`%d`0`A", g.len, g.nb); lc.big++; ctx.progress++;
        if ((sig = GUARD_ENTER()) != 0) ctx.violation("", enc, fmt("%s: uriComposeQueryExA wrote beyond a buffer of INT_MAX characters (three keys of %ld line feeds)", signame(sig), g.len));
        else { int rc = uriComposeQueryExA(dst, &n[0], INT_MAX, &written, URI_TRUE, g.nb); GUARD_LEAVE();
            if (rc != URI_ERROR_OUTPUT_TOO_LARGE) ctx.violation("", enc, fmt("three keys of %ld line feeds need more than INT_MAX characters, but composing into INT_MAX characters returns %d (charsWritten=%d)", g.len, rc, written)); }
        munmap(raw, total);
    }
}

// Lists whose worst-case figure lands exactly on INT_MAX - 2f+1 ... INT_MAX + 1 + 2f (f = 3 or 6 characters per input character): item 1 is a
// key, item 2 a key and a value; every separator ('&', '=') has to be part of the figure that is compared with INT_MAX.
static void boundary_lists(Ctx &ctx, Local &lc) {
    BigRun ra('a', (size_t)INT_MAX / 3 + 16);
    for (int nb = 0; nb < 2; nb++) for (int d = -2; d <= 2; d++) {
        long f = nb ? 6 : 3, S = ((long)INT_MAX - 1) / f, L = S / 3, v = S - 2 * L + d; double worst = (double)f * (double)(S + d) + 2, true_min = (double)(S + d) + 2;
        UriQueryListA n[2]; n[0].key = ra.str((size_t)L); n[0].value = 0; n[0].next = &n[1]; n[1].key = ra.str((size_t)L); n[1].value = ra.str((size_t)v); n[1].next = 0;
        int req = -12345, sig; Str enc = fmt("X`%d`%d`0`0`A", nb, d); lc.big++; ctx.progress++;
        if ((sig = GUARD_ENTER()) != 0) { ctx.violation("", enc, fmt("%s in uriComposeQueryCharsRequiredExA for a worst case of exactly %.0f characters", signame(sig), worst)); continue; }
        int rc = uriComposeQueryCharsRequiredExA(&n[0], &req, URI_TRUE, nb); GUARD_LEAVE();
        if (rc == URI_SUCCESS) { if (worst > (double)INT_MAX || req < 0 || (double)req < true_min) ctx.violation("", enc, fmt("lists (%ld),(%ld,%ld) of 'a', normalizeBreaks=%d: worst case %.0f, success with charsRequired=%d (INT_MAX is %d)", L, L, v, nb, worst, req, INT_MAX)); }
        else if (rc == URI_ERROR_OUTPUT_TOO_LARGE) { lc.big_refused++; if (worst <= (double)INT_MAX / 2) ctx.violation("", enc, "refused although far below INT_MAX"); }
        else ctx.violation("", enc, fmt("unexpected rc=%d", rc));
    }
}

// The allocating variant in the wide API with a key of INT_MAX/24 + 1 characters and a manager that records the request and refuses it: the
// block asked for has to be the character count times sizeof(wchar_t) - computed in size_t, not in an int.
static void wide_giant_malloc(Ctx &ctx, Local &lc) {
    size_t n = (size_t)INT_MAX / 24 + 1, bytes = (n + 1) * sizeof(wchar_t); wchar_t *t = (wchar_t *)mmap(0, bytes, PROT_READ | PROT_WRITE, MAP_PRIVATE | MAP_ANONYMOUS | MAP_NORESERVE, -1, 0); if (t == (wchar_t *)MAP_FAILED) { ctx.harness_error("no address space for the wide key"); return; }
    for (size_t i = 0; i < n; i++) t[i] = L'k'; t[n] = 0;
    struct Rec { UriMemoryManager mm; size_t asked; int calls; } rec; rec.asked = 0; rec.calls = 0; rec.mm.userData = &rec;
    rec.mm.malloc = [](UriMemoryManager *m, size_t k) -> void * { Rec *q = (Rec *)m->userData; q->asked = k; q->calls++; errno = ENOMEM; return (void *)0; };
    rec.mm.calloc = [](UriMemoryManager *m, size_t a, size_t b) -> void * { Rec *q = (Rec *)m->userData; q->asked = (b && a > (size_t)-1 / b) ? (size_t)-1 : a * b; q->calls++; errno = ENOMEM; return (void *)0; };
    rec.mm.realloc = [](UriMemoryManager *m, void *, size_t k) -> void * { Rec *q = (Rec *)m->userData; q->asked = k; q->calls++; return (void *)0; };
    rec.mm.reallocarray = [](UriMemoryManager *m, void *, size_t a, size_t b) -> void * { Rec *q = (Rec *)m->userData; q->asked = a * b; q->calls++; return (void *)0; };
    rec.mm.free = [](UriMemoryManager *, void *) {};
    for (int nb = 0; nb < 2; nb++) { UriQueryListW item; item.key = t; item.value = 0; item.next = 0; wchar_t *out = 0; int sig; Str enc = fmt("W`%d`0`0`0`W", nb); lc.big++; ctx.progress++; rec.asked = 0; rec.calls = 0;
        if ((sig = GUARD_ENTER()) != 0) { ctx.violation("", enc, fmt("%s in uriComposeQueryMallocExMmW for a key of %zu characters", signame(sig), n)); continue; }
        int rc = uriComposeQueryMallocExMmW(&out, &item, URI_TRUE, nb, &rec.mm); GUARD_LEAVE();
        size_t lo = (n + 1) * sizeof(wchar_t), hi = (6 * n + 2) * sizeof(wchar_t);
        if (rc != URI_ERROR_MALLOC || rec.calls != 1) ctx.violation("", enc, fmt("a refusing manager: rc=%d after %d requests (expected URI_ERROR_MALLOC after one)", rc, rec.calls));
        else if (rec.asked < lo || rec.asked > hi || rec.asked % sizeof(wchar_t)) ctx.violation("", enc, fmt("a wide key of %zu characters: the block asked for has %zu bytes (expected between %zu and %zu, a multiple of %zu)", n, rec.asked, lo, hi, sizeof(wchar_t)));
    }
    munmap(t, bytes);
}
void big_sizes(Ctx &ctx, Local &lc) {
    BigFamily fam(ctx.quick(), ctx.secondary ? 3 : 0); uint64_t idx = 0;
    for (int items = 1; items <= 2; items++) {
        int combos = 1; for (int i = 0; i < items * 2; i++) combos *= (fam.nl + 1);
        for (int c = 0; c < combos; c++) for (int fillsel = 0; fillsel < 2; fillsel++) for (int nb = 0; nb < 2; nb++) {
            if (!ctx.mine(idx++)) continue;
            if (ctx.expired()) return;
            fam.one(ctx, lc, items, c, fillsel, nb);
        }
    }
}

static const char *KSET[] = { "", "a", "&", "=", " ", "+", "%", "\n", "\r\n", "a=b&c", "\xff", "\r \n" };

// wchar_t only: keys and values holding code points above 255.  The round trip of the statement has no exception for them, but a triplet
// carries one byte and the library escapes the low byte only (the open finding of C16, inherited by the wide query functions).  Classified by
// defect emulation: the composed text must be exactly "every such character as the triplet of its low byte, the rest as the reference composes".
typedef std::pair<std::wstring, std::pair<bool, std::wstring> > WItem;
static Str emul_escape_w(const std::wstring &w, bool plus, bool nb) {
    static const char *HX = "0123456789ABCDEF"; Str o, run;
    for (wchar_t c : w) { if ((unsigned long)c > 255) { o += ref_escape(run, plus, nb); run.clear(); unsigned b = (unsigned)c & 0xFF; o += '%'; o += HX[b >> 4]; o += HX[b & 15]; } else run += (char)(unsigned char)c; }
    return o + ref_escape(run, plus, nb);
}
static void wide_case(Ctx &ctx, Local &lc, unsigned long x, int shape, int plus, int nb) {
    std::wstring X(1, (wchar_t)x); std::vector<WItem> L;
    if (shape == 0) L = { WItem(X, std::make_pair(false, std::wstring())) };
    else if (shape == 1) L = { WItem(L"k", std::make_pair(true, L"a " + X + L"\n")) };
    else L = { WItem(L"a", std::make_pair(true, std::wstring(L"b"))), WItem(X + L"z", std::make_pair(true, L"y" + X)), WItem(L"c", std::make_pair(false, std::wstring())) };
    Str enc = fmt("H`%lx.%d`%d`%d`W", x, shape, plus, nb); lc.lists++;
    std::vector<UriQueryListW> nodes(L.size()); for (size_t i = 0; i < L.size(); i++) { nodes[i].key = L[i].first.c_str(); nodes[i].value = L[i].second.first ? L[i].second.second.c_str() : NULL; nodes[i].next = i + 1 < L.size() ? &nodes[i + 1] : NULL; }
    int sig; if ((sig = GUARD_ENTER()) != 0) { ctx.violation("", enc, fmt("%s composing / dissecting a wide list with a code point above 255", signame(sig))); return; }
    int need = -1, written = -1; int rc = uriComposeQueryCharsRequiredExW(&nodes[0], &need, plus, nb);
    std::vector<wchar_t> buf((size_t)(need > 0 ? need : 0) + 2, (wchar_t)0x55); int rc2 = rc == URI_SUCCESS ? uriComposeQueryExW(&buf[0], &nodes[0], need + 1, &written, plus, nb) : rc;
    UriQueryListW *back = NULL; int count = -1, rc3 = rc2;
    if (rc2 == URI_SUCCESS) rc3 = uriDissectQueryMallocExW(&back, &count, &buf[0], &buf[0] + wcslen(&buf[0]), plus, URI_BR_DONT_TOUCH);
    std::vector<WItem> got; for (UriQueryListW *q = back; q; q = q->next) got.push_back(WItem(q->key ? q->key : L"", std::make_pair(q->value != NULL, q->value ? std::wstring(q->value) : std::wstring())));
    if (back) uriFreeQueryListW(back);
    GUARD_LEAVE(); lc.compose_calls++; lc.dissects++;
    if (rc != URI_SUCCESS || rc2 != URI_SUCCESS || rc3 != URI_SUCCESS) { ctx.violation("", enc, fmt("wide list with U+%lX: charsRequired/compose/dissect returned %d/%d/%d", x, rc, rc2, rc3)); return; }
    std::wstring text(&buf[0]); Str ntext = narrow<wchar_t>(text);
    if (written != (int)text.size() + 1 || (int)text.size() > need) { ctx.violation("", enc, fmt("wide list with U+%lX: charsWritten %d / charsRequired %d for a text of %zu characters", x, written, need, text.size())); return; }
    for (wchar_t c : text) if ((unsigned long)c > 127 || !(ref::is_unreserved((unsigned char)c) || c == L'%' || c == L'+' || c == L'&' || c == L'=')) { ctx.violation("", enc, "composed wide text holds a character that is not legal in a query: '" + esc(ntext) + "'"); return; }
    std::vector<WItem> want = L; if (nb) for (auto &it : want) for (std::wstring *t : { &it.first, &it.second.second }) { std::wstring o; for (wchar_t c : *t) { if (c == L'\n') o += L"\r\n"; else o += c; } *t = o; }
    if (got == want && count == (int)want.size()) return;
    Str emu; for (size_t i = 0; i < L.size(); i++) { if (i) emu += '&'; emu += emul_escape_w(L[i].first, plus, nb); if (L[i].second.first) emu += "=" + emul_escape_w(L[i].second.second, plus, nb); }
    ctx.violation(ntext == emu ? "C17-wide-code-point-above-255" : "", enc, fmt("dissect(compose(list)) differs from the list for a wide list containing U+%lX (composed as '%s')", x, esc(ntext).c_str()));
}
void run(Ctx &ctx) {
    Local lc; Runner<char> ra(&ctx, &lc); Runner<wchar_t> rw(&ctx, &lc); SanWatch sw;
    std::vector<Item> items; for (auto k : KSET) { Item it; it.first = k; it.second.first = false; items.push_back(it); for (auto v : KSET) { it.second.first = true; it.second.second = v; items.push_back(it); } }
    std::vector<Item> thin; for (auto k : { "", "a", "&", "\n" }) { Item it; it.first = k; it.second.first = false; thin.push_back(it); for (auto v : { "", "=", "\r\n" }) { it.second.first = true; it.second.second = v; thin.push_back(it); } }
    uint64_t idx = 0; size_t n1 = ctx.secondary ? 20 : items.size();
    for (size_t i = 0; i < n1; i++) { if (ctx.mine(idx++)) { std::vector<Item> L = { items[i] }; ra.list_case(L, true); rw.list_case(L, true); } }
    for (size_t i = 0; i < n1 && !ctx.expired(); i++) for (size_t j = 0; j < n1; j++) {
        if (!ctx.mine(idx++)) continue; std::vector<Item> L = { items[i], items[j] }; ra.list_case(L, true); rw.list_case(L, !ctx.quick());
        const std::vector<Item> &third = ctx.quick() || ctx.secondary ? thin : items;
        if (!ctx.secondary) for (auto &t : third) { std::vector<Item> L3 = { items[i], items[j], t }; ra.list_case(L3, false); if (!ctx.quick()) rw.list_case(L3, false); }
    }
    // every byte value as a key, as a value and on both sides of an item, alone and next to a plain item
    { uint64_t bi = 0; for (int v = 1; v < 256; v++) { if (!ctx.mine(bi++) || ctx.expired()) continue; Str x(1, (char)v);
        std::vector<std::vector<Item> > Ls = { { Item(x, std::make_pair(false, Str())) }, { Item("k", std::make_pair(true, x)) }, { Item(x, std::make_pair(true, x)) }, { Item("a", std::make_pair(true, Str("b"))), Item(x + "z", std::make_pair(true, "y" + x)) } };
        for (auto &L : Ls) { ra.list_case(L, true); rw.list_case(L, false); } } }
    // stretch family: one key or value of a repeated unit, lengths around the powers of two (buffers sized from an estimate, counters in a narrow type)
    { uint64_t si = 0; std::vector<int> SL = stretch_lengths(ctx.secondary ? 0 : ctx.quick() ? 1 : 2); Runner<char> sa(&ctx, &lc, 16, 8); Runner<wchar_t> sb(&ctx, &lc, 16, 8);
      for (const char *u : { "a", "&", " ", "\n", "%", "=", "\xff" }) for (int n : SL) { if (n > 1100) continue; if (!ctx.mine(si++) || ctx.expired()) continue; Str x; for (int i = 0; i < n; i++) x += u;
          std::vector<std::vector<Item> > Ls = { { Item(x, std::make_pair(false, Str())) }, { Item("k", std::make_pair(true, x)) } };
          for (auto &L : Ls) { sa.list_case(L, false); sb.list_case(L, false); ctx.st.count("stretch_family"); } } }
    all_strings(ctx, "&=a+%41", (ctx.secondary ? 4 : ctx.quick() ? 6 : 8) + ctx.bonus, [&](const Str &s) { if (ctx.expired()) return; ra.splitter_case(s); rw.splitter_case(s); });
    if (ctx.worker == 0) for (unsigned long x : { 0x100ul, 0x141ul, 0x20ACul, 0x10041ul }) for (int shape = 0; shape < 3; shape++) for (int plus = 0; plus < 2; plus++) for (int nb = 0; nb < 2; nb++) wide_case(ctx, lc, x, shape, plus, nb);
    big_sizes(ctx, lc);
    if (!ctx.secondary && ctx.worker == 2 % ctx.nworkers) giant_write(ctx, lc);
    if (!ctx.secondary && ctx.worker == 3 % ctx.nworkers) boundary_lists(ctx, lc);
    if (!ctx.secondary && ctx.worker == 4 % ctx.nworkers) wide_giant_malloc(ctx, lc);
    if (sw.tripped()) ctx.violation("", "S`a`0`0`A", "AddressSanitizer reported an invalid access");
    ctx.st.count("evaluations", lc.compose_calls + lc.dissects + lc.splitter + lc.big); ctx.st.count("lists", lc.lists); ctx.st.count("compose_calls", lc.compose_calls); ctx.st.count("compose_refused_too_small", lc.too_small);
    ctx.st.count("dissect_roundtrips", lc.dissects); ctx.st.count("splitter_strings", lc.splitter); ctx.st.count("int_max_edge_lists", lc.big); ctx.st.count("int_max_edge_refused", lc.big_refused); ctx.st.count("dropped_empty_items", lc.dropped_items);
    if (ctx.worker == 0) { ctx.st.sample("[(a=b&c,\\r\\n),(,NULL),(%,+)] spaceToPlus=1 normalizeBreaks=1, every capacity 0..required+1"); ctx.st.sample("dissect 'a=&=4%41&&+=%4' plusToSpace=1"); ctx.st.sample("two keys of 357913940 line feeds, normalizeBreaks=1"); }
}
void replay(Ctx &ctx, const Str &enc) {
    std::vector<Str> p = split(enc, '`'); Local lc; if (p.size() < 5) return;
    if (p[0] == "G") { giant_write(ctx, lc); return; }
    if (p[0] == "X") { boundary_lists(ctx, lc); return; }
    if (p[0] == "W") { wide_giant_malloc(ctx, lc); return; }
    if (p[0] == "B" && p.size() == 6) { BigFamily fam(p[5][0] == 'q', atoi(p[5].c_str() + 1)); fam.one(ctx, lc, atoi(p[1].c_str()), atoi(p[2].c_str()), atoi(p[3].c_str()), atoi(p[4].c_str())); return; }
    int a = atoi(p[2].c_str()), b = atoi(p[3].c_str());
    if (p[0] == "H") { unsigned long x = 0; int shape = 0; if (sscanf(p[1].c_str(), "%lx.%d", &x, &shape) == 2) wide_case(ctx, lc, x, shape, a, b); return; }
    if (p[0] == "L") { std::vector<Item> L = dec_list(p[1]); if (p[4] == "A") { Runner<char> r(&ctx, &lc, 16, 8); r.list_case(L, true, a, b); } else { Runner<wchar_t> r(&ctx, &lc, 16, 8); r.list_case(L, true, a, b); } }
    else if (p[0] == "S") { if (p[4] == "A") { Runner<char> r(&ctx, &lc); r.splitter_case(p[1], a, b); } else { Runner<wchar_t> r(&ctx, &lc); r.splitter_case(p[1], a, b); } }
}
Str coverage(const Ctx &, const Stats &st) {
    return jkv("evaluations", st.get("evaluations")) + ", " + jkv("distinct_nontrivial", st.get("compose_refused_too_small") + st.get("dissect_roundtrips")) + ", " +
           jkvs("rule", "cases: (a) every list of 1-2 items (quick: plus a thinned third item; thorough: full third item) with key in K and value in K or NULL, K = {'', a, &, =, space, +, %, LF, CRLF, 'a=b&c', 0xFF}, under both compose flags, composed with EVERY capacity 0..charsRequired+1 (3-item lists: 6 boundary capacities) into a buffer ending at an inaccessible page, with and without charsWritten, then dissected with matching options by default and ledger manager and via the Malloc variant; (b) all strings up to length 6/8 over {&, =, a, +, %, 4, 1} dissected in a guard-placed explicit range and compared with a reference splitter; (c) lists of 1-2 items whose key/value lengths are drawn from {0, INT_MAX/6-1, INT_MAX/6, INT_MAX/3, ...} (strings of 'a' or LF mapped without using memory) through uriComposeQueryCharsRequiredEx: success implies a non-wrapped figure. distinct_nontrivial = compose calls refused for lack of room + dissect round trips (distinct cases by construction).") + ", " +
           jkv("lists", st.get("lists")) + ", " + jkv("compose_calls", st.get("compose_calls")) + ", " + jkv("compose_refused_too_small", st.get("compose_refused_too_small")) + ", " + jkv("dissect_roundtrips", st.get("dissect_roundtrips")) + ", " +
           jkv("splitter_strings", st.get("splitter_strings")) + ", " + jkv("int_max_edge_lists", st.get("int_max_edge_lists")) + ", " + jkv("int_max_edge_refused", st.get("int_max_edge_refused")) + ", " + jkv("dropped_empty_items", st.get("dropped_empty_items")) + ", " + jkv("stretch_family_lists", st.get("stretch_family")) + ", " + jsamples(st);
}
Check chk = { "C17", "exploration", run, replay, coverage, "the INT_MAX-edge family runs in the char API only (a wchar_t run of that length would need 2.8 GB of address space per string; the arithmetic is shared code)|compose may refuse a capacity between the true length and the worst-case figure; the statement allows that" };
REGISTER_CHECK(chk);
}
