// The thread bodies of C20: each touches only its own outputs and shares read-only inputs with the others.
#pragma once
#include "fixture.h"

enum { CONC_NBODIES = 14 };
static const char *CONC_BODY_NAMES[CONC_NBODIES] = { "parse(own text)", "resolve(shared ref, shared base)", "shorten(shared source, shared base)", "maskRequired(shared)", "toString(shared)", "equals(shared, shared)", "dissectQuery(shared text)", "composeQuery(shared list)", "normalize(own copy)", "makeOwner(own)", "escape+unescape(own buffers)", "filename conversions(own buffers)", "wchar_t: parse+normalize+resolve+toString(own)", "parse(shared read-only text)+normalize+makeOwner(own object)" };

struct ConcWorld {
    UriMemoryManager *mm;          // manager used for every allocation of the bodies (NULL = libc)
    ArenaMM ro; RoUri<char> ref, base, src, messy, ip4; UriQueryListA *qlist; const char *qtext; size_t qlen; const char *shared_texts[4];
    explicit ConcWorld(UriMemoryManager *m) : mm(m), ro(16) {
        ref = make_ro<char>(ro, "../x/./y/../z?k=v#frag"); base = make_ro<char>(ro, "s://user@[::1]:8080/a/b/c/d?bq");
        src = make_ro<char>(ro, "s://user@[::1]:8080/a/x/y?sq#sf"); messy = make_ro<char>(ro, "S://U%41@H.X:80/%7e/./A/../b?Q%41#%2f"); ip4 = make_ro<char>(ro, "s://u@192.168.100.7:80/p/q?x#y");
        { const char *st[4] = { "S://U%41@[A::B]:80/%7e/./A/../b?Q%41#%2f", "s://[vF.X]/P%2e", "//H%41.X/%2E%2E/a:b", "//1%2E2.3.4:8/x" }; for (int i = 0; i < 4; i++) { char *c = (char *)ro.arena.alloc(strlen(st[i]) + 1); strcpy(c, st[i]); shared_texts[i] = c; } }
        const char *q = "a=1&b=%41+c&&d=&e"; qlen = strlen(q); char *qt = (char *)ro.arena.alloc(qlen + 1); memcpy(qt, q, qlen + 1); qtext = qt;
        qlist = (UriQueryListA *)ro.arena.alloc(3 * sizeof(UriQueryListA)); const char *kv[][2] = { { "k 1", "v&1" }, { "k=2", 0 }, { "", "\n" } };
        for (int i = 0; i < 3; i++) { for (int j = 0; j < 2; j++) { const char *s = kv[i][j]; char *c = 0; if (s) { c = (char *)ro.arena.alloc(strlen(s) + 1); strcpy(c, s); } if (j == 0) qlist[i].key = c; else qlist[i].value = c; } qlist[i].next = i < 2 ? &qlist[i + 1] : 0; }
        ro.arena.protect();
    }
    Str run_body(int body, int slot) {
        (void)slot; UriUriA u, d; const char *ep = 0; Str r; int rc;
        switch (body) {
        case 0: {   // every host kind x user info x port combination, with texts that differ per thread
            char S = (char)('1' + slot % 8); const char *pat[] = { "//1.2.3.S:8S", "//1.2.3.S", "//u@9.8.7.S:1", "//u@9.8.7.S", "//[::S]:80", "//[vS.x]", "s://h.x:8S/a?q#f", "a/b/S", "s://u:p@[A:b::1.2.3.S]:80/a/./b/../c?q=1#f", "//h%4S@[::S", "1.2.3.S" };
            for (auto p0 : pat) { Str t = p0; for (auto &c : t) if (c == 'S') c = S;
                rc = mm ? uriParseSingleUriExMmA(&u, t.c_str(), t.c_str() + t.size(), &ep, mm) : uriParseSingleUriA(&u, t.c_str(), &ep); r += fmt("rc=%d ", rc); if (!rc) r += observe<char>(u, t.c_str(), t.c_str() + t.size()).key() + "; "; else r += fmt("err@%ld; ", (long)(ep - t.c_str()));
                if (mm) uriFreeUriMembersMmA(&u, mm); else uriFreeUriMembersA(&u); }
            return r; }
        case 1: rc = mm ? uriAddBaseUriExMmA(&d, ref.u, base.u, URI_RESOLVE_STRICTLY, mm) : uriAddBaseUriA(&d, ref.u, base.u); r = fmt("rc=%d ", rc); if (!rc) { int t; r += observe<char>(d).key() + " " + to_text<char>(d, &t); } if (mm) uriFreeUriMembersMmA(&d, mm); else uriFreeUriMembersA(&d); return r;
        case 2: rc = mm ? uriRemoveBaseUriMmA(&d, src.u, base.u, URI_FALSE, mm) : uriRemoveBaseUriA(&d, src.u, base.u, URI_FALSE); r = fmt("rc=%d ", rc); if (!rc) { int t; r += observe<char>(d).key() + " " + to_text<char>(d, &t); } if (mm) uriFreeUriMembersMmA(&d, mm); else uriFreeUriMembersA(&d); return r;
        case 3: { unsigned m = uriNormalizeSyntaxMaskRequiredA(messy.u), m2 = 0; rc = uriNormalizeSyntaxMaskRequiredExA(messy.u, &m2); return fmt("mask=%u/%u rc=%d", m, m2, rc); }
        case 4: { char buf[128]; int w = -1, need = -1; rc = uriToStringCharsRequiredA(ip4.u, &need); int rc2 = uriToStringA(buf, ip4.u, sizeof buf, &w); int rc3 = uriToStringA(buf + 64, base.u, 60, &w); return fmt("rc=%d/%d/%d need=%d w=%d ", rc, rc2, rc3, need, w) + buf + " " + (buf + 64); }
        case 5: return fmt("eq=%d%d%d", uriEqualsUriA(src.u, base.u), uriEqualsUriA(base.u, base.u), uriEqualsUriA(messy.u, messy.u));
        case 6: { UriQueryListA *ql = 0; int n = -1; rc = mm ? uriDissectQueryMallocExMmA(&ql, &n, qtext, qtext + qlen, URI_TRUE, URI_BR_DONT_TOUCH, mm) : uriDissectQueryMallocA(&ql, &n, qtext, qtext + qlen); r = fmt("rc=%d n=%d ", rc, n); if (!rc) { for (UriQueryListA *x = ql; x; x = x->next) r += Str("(") + x->key + "," + (x->value ? x->value : "NULL") + ")"; if (mm) uriFreeQueryListMmA(ql, mm); else uriFreeQueryListA(ql); } return r; }
        case 7: { char buf[128]; int w = -1, need = -1; rc = uriComposeQueryCharsRequiredA(qlist, &need); int rc2 = uriComposeQueryA(buf, qlist, sizeof buf, &w); return fmt("rc=%d/%d need=%d w=%d ", rc, rc2, need, w) + buf; }
        case 8: { const char *t = messy.text.c_str(); rc = mm ? uriParseSingleUriExMmA(&u, t, t + strlen(t), &ep, mm) : uriParseSingleUriA(&u, t, &ep); int rc2 = mm ? uriNormalizeSyntaxExMmA(&u, 63, mm) : uriNormalizeSyntaxA(&u); int tt; r = fmt("rc=%d/%d ", rc, rc2) + observe<char>(u).key() + " " + to_text<char>(u, &tt); if (mm) uriFreeUriMembersMmA(&u, mm); else uriFreeUriMembersA(&u); return r; }
        case 9: { const char *t = ip4.text.c_str(); rc = mm ? uriParseSingleUriExMmA(&u, t, t + strlen(t), &ep, mm) : uriParseSingleUriA(&u, t, &ep); int rc2 = mm ? uriMakeOwnerMmA(&u, mm) : uriMakeOwnerA(&u); int tt; r = fmt("rc=%d/%d ", rc, rc2) + observe<char>(u).key() + " " + to_text<char>(u, &tt); if (mm) uriFreeUriMembersMmA(&u, mm); else uriFreeUriMembersA(&u); return r; }
        case 10: { char in[40], out[256]; snprintf(in, sizeof in, "a b\r\n%c~/%%\xc3\xa4+", '0' + slot); char *e1 = uriEscapeA(in, out, URI_TRUE, URI_TRUE); char *e2 = uriEscapeExA(in, in + strlen(in), out + 128, URI_FALSE, URI_FALSE);
            r = Str((const char *)out, (const char *)e1) + "|" + Str((const char *)(out + 128), (const char *)e2) + "|"; const char *u1 = uriUnescapeInPlaceExA(out, URI_TRUE, URI_BR_TO_LF); const char *u2 = uriUnescapeInPlaceA(out + 128); return r + Str((const char *)out, u1) + "|" + Str((const char *)(out + 128), u2); }
        case 11: { char name[40], us[160], back[160]; snprintf(name, sizeof name, "C:\\dir %c\\f#%%.txt", '0' + slot); rc = uriWindowsFilenameToUriStringA(name, us); int rc2 = uriUriStringToWindowsFilenameA(us, back); r = fmt("rc=%d/%d ", rc, rc2) + us + " " + back;
            snprintf(name, sizeof name, "/tmp/%c x/\xff?", '0' + slot); rc = uriUnixFilenameToUriStringA(name, us); rc2 = uriUriStringToUnixFilenameA(us, back); return r + fmt(" rc=%d/%d ", rc, rc2) + us + " " + back; }
        case 12: { std::wstring t = widen<wchar_t>(Str("S://U%41@H.X:8") + (char)('0' + slot) + "/%7e/./A/../b?Q%41#%2f"), bt = widen<wchar_t>("s://[::1]/a/b"); UriUriW wu, wb, wd; const wchar_t *wep = 0;
            rc = mm ? uriParseSingleUriExMmW(&wu, t.data(), t.data() + t.size(), &wep, mm) : uriParseSingleUriExW(&wu, t.data(), t.data() + t.size(), &wep); int rcb = mm ? uriParseSingleUriExMmW(&wb, bt.data(), bt.data() + bt.size(), &wep, mm) : uriParseSingleUriExW(&wb, bt.data(), bt.data() + bt.size(), &wep);
            int rc2 = mm ? uriNormalizeSyntaxExMmW(&wu, 63, mm) : uriNormalizeSyntaxW(&wu); int rc3 = mm ? uriAddBaseUriExMmW(&wd, &wu, &wb, URI_RESOLVE_STRICTLY, mm) : uriAddBaseUriW(&wd, &wu, &wb); int tt;
            r = fmt("rc=%d/%d/%d/%d ", rc, rcb, rc2, rc3) + observe<wchar_t>(wu).key() + " " + to_text<wchar_t>(wu, &tt) + " " + (rc3 ? Str("-") : to_text<wchar_t>(wd, &tt));
            if (mm) { uriFreeUriMembersMmW(&wd, mm); uriFreeUriMembersMmW(&wu, mm); uriFreeUriMembersMmW(&wb, mm); } else { uriFreeUriMembersW(&wd); uriFreeUriMembersW(&wu); uriFreeUriMembersW(&wb); } return r; }
        case 13: for (int i = 0; i < 4; i++) { const char *t = shared_texts[i]; rc = mm ? uriParseSingleUriExMmA(&u, t, t + strlen(t), &ep, mm) : uriParseSingleUriA(&u, t, &ep); int rc2 = mm ? uriNormalizeSyntaxExMmA(&u, (unsigned)(i & 1 ? 63 : 4), mm) : uriNormalizeSyntaxExA(&u, (unsigned)(i & 1 ? 63 : 4));
                int rc3 = mm ? uriMakeOwnerMmA(&u, mm) : uriMakeOwnerA(&u); int tt; r += fmt("rc=%d/%d/%d ", rc, rc2, rc3) + observe<char>(u).key() + " " + to_text<char>(u, &tt) + "; "; if (mm) uriFreeUriMembersMmA(&u, mm); else uriFreeUriMembersA(&u); }
            return r;
        }
        return "?";
    }
};
