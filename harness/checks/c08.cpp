// C08 - normalisation yields the RFC 3986 syntax-based normal form; masks; idempotence; mask-required laws.
#include "../core.h"
#include "fixture.h"
#include "corpus.h"
#include "norm_sets.h"

namespace {
struct Local { uint64_t cases = 0, calls = 0, changed = 0, alt_used = 0, mask_zero = 0; std::set<Str> normal_forms; };

static Str describe_expected(const ref::Normal &n) { Str s = ref::recompose(n.u); for (auto &a : n.path_alts) { ref::RUri v = n.u; v.path = a; s += " | " + ref::recompose(v); } return s; }

template <class C> struct Runner {
    typedef Api<C> A; typedef typename A::Uri Uri;
    FenceBuf fb; Ledger led; Ctx *ctx; Local *lc;
    Runner(Ctx *c, Local *l, size_t pages = 4) : fb(pages), ctx(c), lc(l) {}
    static Str enc(const Str &t, unsigned mask, int owned, int mgr) { return t + "`" + fmt("%u`%d`%d`%s", mask, owned, mgr, A::name()); }

    // compare a library object with the expected normal form; returns "" when it matches
    Str compare(const Uri &u, const ref::Normal &n) {
        UriObs o = observe<C>(u); const ref::RUri &e = n.u;
        auto cmp = [](const RangeObs &r, const ref::Comp &c) { return r.kind != 3 && (r.kind != 0) == c.present && r.text == c.text; };
        if (!cmp(o.scheme, e.scheme)) return "scheme " + o.scheme.key();
        if (!cmp(o.userinfo, e.userinfo)) return "user info " + o.userinfo.key() + " expected \"" + e.userinfo.text + "\"";
        if (o.has_host() != e.has_authority) return "authority presence changed";
        if (o.hostkind() != e.hostkind) return fmt("host kind %d expected %d", o.hostkind(), e.hostkind);
        if (e.has_authority && e.hostkind != ref::HK_IP6 && o.host.text != e.host.text) return "host " + o.host.key() + " expected \"" + e.host.text + "\"";
        if (e.hostkind == ref::HK_FUTURE && !(o.ipfuture.text == o.host.text)) return "ipFuture text differs from hostText";
        if (e.hostkind == ref::HK_IP4 && o.ip != Str((const char *)e.ip, 4)) return "IPv4 bytes changed";
        if (e.hostkind == ref::HK_IP6 && o.ip != Str((const char *)e.ip, 16)) return "IPv6 bytes changed";
        if (!cmp(o.port, e.port)) return "port " + o.port.key();
        if (!cmp(o.query, e.query)) return "query " + o.query.key() + " expected \"" + e.query.text + "\"";
        if (!cmp(o.fragment, e.fragment)) return "fragment " + o.fragment.key() + " expected \"" + e.fragment.text + "\"";
        Str pt = o.path_text();
        if (!ref::path_matches(n, pt)) return "path '" + pt + "' expected '" + e.path + "'" + (n.path_alts.empty() ? "" : " (or '" + n.path_alts[0] + "')");
        if (pt != e.path) lc->alt_used++;
        if (!o.tail_ok) return "pathTail is not the last node";
        ref::RUri ee = e; ee.path = pt; int rc = 0; Str txt = to_text<C>(u, &rc);
        if (rc != URI_SUCCESS || txt != ref::recompose(ee)) return "recomposed text '" + txt + "' expected '" + ref::recompose(ee) + "'";
        return "";
    }
    int norm(Uri *u, unsigned mask, int mgr) { lc->calls++; if (mgr) { led.clear_injection(); return A::NormalizeSyntaxExMm(u, mask, &led.mm); } return A::NormalizeSyntaxEx(u, mask); }
    void freeu(Uri *u, int mgr) { if (mgr) A::FreeUriMembersMm(u, &led.mm); else A::FreeUriMembers(u); }
    bool parse(Uri *u, const C *p, size_t n, int mgr) { const C *ep = 0; int rc = mgr ? A::ParseSingleUriExMm(u, p, p + n, &ep, &led.mm) : A::ParseSingleUriEx(u, p, p + n, &ep); return rc == URI_SUCCESS; }

    void one(const Str &text, const ref::RUri &r, unsigned mask, int owned, int mgr) {
        lc->cases++;
        std::basic_string<C> w = widen<C>(text);
        const C *p = (const C *)fb.put_end(w.data(), w.size() * sizeof(C));     // source text is read-only
        Uri u; if (!parse(&u, p, w.size(), mgr)) { ctx->harness_error("corpus URI does not parse: " + text); return; }
        if (owned) { int rc = mgr ? A::MakeOwnerMm(&u, &led.mm) : A::MakeOwner(&u); if (rc) { ctx->violation("", enc(text, mask, owned, mgr), fmt("MakeOwner rc=%d", rc)); freeu(&u, mgr); return; } }
        ref::Normal n; ref::normalize(r, mask, n);
        Str what; int rc = norm(&u, mask, mgr);
        if (rc != URI_SUCCESS) what = fmt("normalisation returned %d", rc);
        else what = compare(u, n);
        if (what.empty()) {
            if (ref::recompose(n.u) != ref::recompose(r)) lc->changed++;
            if (lc->normal_forms.size() < 30000) lc->normal_forms.insert(ref::recompose(n.u));
            // idempotence on the library's own output
            Str k1 = observe<C>(u).content_key(); rc = norm(&u, mask, mgr); Str k2 = observe<C>(u).content_key();
            if (rc != URI_SUCCESS || k1 != k2) what = "not idempotent: second pass gives " + k2 + " after " + k1;
        }
        if (what.empty() && mask == 63) {
            // the Ex-less entry point and the all-ones mask agree with mask 63
            Uri v; if (parse(&v, p, w.size(), 0)) { int r2 = A::NormalizeSyntax(&v); Str kv = observe<C>(v).content_key(), ku = observe<C>(u).content_key(); if (r2 != URI_SUCCESS || kv != ku) what = "uriNormalizeSyntax differs from mask 63: " + kv + " vs " + ku; A::FreeUriMembers(&v); }
        }
        freeu(&u, mgr);
        if (mgr) { if (what.empty() && (!led.live.empty() || !led.errors.empty())) what = led.errors.empty() ? fmt("%zu blocks outstanding after free", led.live.size()) : led.errors[0]; if (!led.live.empty() || !led.errors.empty()) led.reset(); }
        if (!what.empty()) ctx->violation("", enc(text, mask, owned, mgr), what + " [expected " + describe_expected(n) + "]");
    }
    // mask-required laws (once per URI)
    void mask_laws(const Str &text, const ref::RUri &r) {
        std::basic_string<C> w = widen<C>(text);
        const C *p = (const C *)fb.put_end(w.data(), w.size() * sizeof(C));
        Uri u, v; if (!parse(&u, p, w.size(), 0) || !parse(&v, p, w.size(), 0)) return;
        Str before = observe<C>(u, p, p + w.size()).key();
        unsigned m = A::NormalizeSyntaxMaskRequired(&u); unsigned m2 = 12345; int rc = A::NormalizeSyntaxMaskRequiredEx(&u, &m2);
        Str what;
        if (observe<C>(u, p, p + w.size()).key() != before) what = "mask query modified its argument";
        else if (rc != URI_SUCCESS || m2 != m) what = fmt("MaskRequiredEx gives %u (rc %d), MaskRequired gives %u", m2, rc, m);
        else if (m & ~63u) what = fmt("mask %u has unknown bits", m);
        else {
            if (m == 0) lc->mask_zero++;
            int r1 = A::NormalizeSyntaxEx(&u, m), r2 = A::NormalizeSyntaxEx(&v, 63);
            Str ku = observe<C>(u).content_key(), kv = observe<C>(v).content_key();
            int trc; Str tu = to_text<C>(u, &trc), tv = to_text<C>(v, &trc);
            if (r1 || r2) what = fmt("normalisation failed (%d, %d)", r1, r2);
            else if (tu != tv || ku != kv) what = fmt("normalising with the required mask %u gives '%s', full normalisation gives '%s'", m, tu.c_str(), tv.c_str());
            else if (m == 0) { ref::Normal n; ref::normalize(r, 63, n); if (!(ref::recompose(n.u) == text || (ref::path_matches(n, r.path) ))) what = "required mask is 0 but the URI is not in normal form; normal form is " + describe_expected(n); }
        }
        A::FreeUriMembers(&u); A::FreeUriMembers(&v);
        if (!what.empty()) ctx->violation("", enc(text, 64, 0, 0), what);
    }
    void run_uri(const Str &text, int only_mask = -1, int only_owned = -1, int only_mgr = -1, bool light = false) {
        ref::RUri r; if (!ref::decompose(text, r)) { ctx->harness_error("corpus text is not a URI reference: " + text); return; }
        int sig; SanWatch sw;
        for (unsigned mask = 0; mask < 64; mask++) for (int owned = 0; owned < 2; owned++) for (int mgr = 0; mgr < 2; mgr++) {
            if ((only_mask >= 0 && (int)mask != only_mask) || (only_owned >= 0 && owned != only_owned) || (only_mgr >= 0 && mgr != only_mgr)) continue;
            if (light && only_mask < 0 && ((mask & (mask - 1)) != 0 && mask != 63)) continue;      // stretch family: no mask, each single bit, all bits
            if ((sig = GUARD_ENTER()) == 0) { one(text, r, mask, owned, mgr); GUARD_LEAVE(); }
            else { ctx->violation("", enc(text, mask, owned, mgr), fmt("%s during normalisation (crash or write to the borrowed source text)", signame(sig))); led.reset(); }
        }
        if (only_mask < 0 || only_mask == 64) { if ((sig = GUARD_ENTER()) == 0) { mask_laws(text, r); GUARD_LEAVE(); } else ctx->violation("", enc(text, 64, 0, 0), fmt("%s in mask-required laws", signame(sig))); }
        if (sw.tripped()) ctx->violation("", enc(text, 63, 0, 0), "AddressSanitizer reported an invalid access");
    }
};

void run(Ctx &ctx) {
    Local lc; Runner<char> ra(&ctx, &lc); Runner<wchar_t> rw(&ctx, &lc);
    std::vector<Str> corpus = norm_corpus(ctx.secondary ? 0 : ctx.quick() ? 1 : 2, ctx.bonus);
    for (size_t i = 0; i < corpus.size(); i++) { if (!ctx.mine(i)) continue; if (ctx.expired()) break; ctx.progress++; ra.run_uri(corpus[i]); rw.run_uri(corpus[i]); }
    // every triplet %00..%FF, in upper-, lower- and mixed-case hex, inside every component: the decode / keep decision for each of
    // the 256 values (the alphabets above hold a dozen of them; a slip in the unreserved set hits one value)
    { uint64_t ti = 0; static const char *HXU = "0123456789ABCDEF", *HXL = "0123456789abcdef";
      for (int v = 0; v < 256; v++) for (int cs = 0; cs < 3; cs++) { if (!ctx.mine(ti++) || ctx.expired()) continue;
          Str t = "%"; t += (cs == 1 ? HXL : HXU)[v >> 4]; t += (cs == 0 ? HXU : HXL)[v & 15];
          for (auto &u : { "//u" + t + "x@h/", "//h" + t + "x/p", "/a" + t + "b/" + t, "s:" + t + "b", "?q" + t, "#" + t + "f" }) { ctx.progress++; ra.run_uri(u, -1, -1, -1, true); rw.run_uri(u, -1, -1, -1, true); ctx.st.count("all_triplets"); } } }
    // every printable character, raw, in every component where the grammar allows it (the case-folding decision for each letter in the
    // scheme, the registered name, the IPvFuture and IPv6 literals; "leave alone" everywhere else) - is_uri_reference filters the illegal ones
    { uint64_t ci = 0;
      for (int c = 0x21; c < 0x7f; c++) { if (!ctx.mine(ci++) || ctx.expired()) continue; Str x(1, (char)c);
          for (auto &u : { "a" + x + "b://h/", "A" + x + ":p", "//a" + x + "B/p", "//" + x + "/", "//u" + x + "U@h", "//[v1." + x + "A]/", "//[v" + x + ".a]", "//[V" + x + "b.Q" + x + "]", "//[::" + x + "]", "//[A" + x + "::1.2.3.4]:1",
                           "/a" + x + "B", "a" + x + "/B", "?a" + x + "B", "#a" + x + "B", "S://H:1" + x, "//h" + x + ":8/",
                           /* a first segment with a colon that dot removal or a leading "./" exposes, with every character in front of the colon (the guard "./" is owed whatever that character is) */
                           "x/../a" + x + "b:c", "./" + x + "a:c/d", "x/./../" + x + ":" }) {
              if (!ref::is_uri_reference(u)) continue; ctx.progress++; ra.run_uri(u, -1, -1, -1, true); rw.run_uri(u, -1, -1, -1, true); ctx.st.count("raw_character_sweep"); } } }
    { Runner<char> sa(&ctx, &lc, 520); Runner<wchar_t> sw2(&ctx, &lc, 520); std::vector<Str> st = stretch_list(ctx.secondary || ctx.quick() ? 0 : 1);
      for (size_t i = 0; i < st.size(); i++) { if (!ctx.mine(i)) continue; if (ctx.expired()) break; ctx.progress++; sa.run_uri(st[i], -1, -1, -1, true); sw2.run_uri(st[i], -1, -1, -1, true); ctx.st.count("stretch_family"); } }
    ctx.st.count("evaluations", lc.cases); ctx.st.count("normalize_calls", lc.calls); ctx.st.count("cases_where_normal_form_differs_from_input", lc.changed);
    ctx.st.count("alt_spelling_used", lc.alt_used); ctx.st.count("mask_required_zero", lc.mask_zero);
    for (auto &s : lc.normal_forms) ctx.st.distinct("normal_forms", s);
    if (ctx.worker == 0) { ctx.st.count("corpus", corpus.size()); ctx.st.sample("S://%41%7e@A%3a%41:80/a/%2e/%2E%2E/b?%41%3d#F%2f mask=63 borrowed"); ctx.st.sample("./c:d/.. mask=8 owned"); ctx.st.sample("//h/../b mask=8"); }
}
void replay(Ctx &ctx, const Str &enc) {
    std::vector<Str> p = split(enc, '`'); if (p.size() != 5) return; Local lc;
    if (p[4] == "A") { Runner<char> r(&ctx, &lc, 520); r.run_uri(p[0], atoi(p[1].c_str()), atoi(p[2].c_str()), atoi(p[3].c_str())); }
    else { Runner<wchar_t> r(&ctx, &lc, 520); r.run_uri(p[0], atoi(p[1].c_str()), atoi(p[2].c_str()), atoi(p[3].c_str())); }
}
Str coverage(const Ctx &, const Stats &st) {
    return jkv("evaluations", st.get("evaluations")) + ", " + jkv("distinct_nontrivial", st.nset("normal_forms")) + ", " +
           jkvs("rule", "cases = (URI text, mask 0..63, borrowed/owned, default/ledger manager, char type). Corpus = product of component alternatives carrying case and percent-encoding variants (triplets of unreserved and reserved characters, both hex cases, triplets at and one short of the end of a component) and all path-token sequences up to length n over {'', '.', '..', a, c:d, %2e, %2E%2E, A, %41, %7e} in four contexts (relative reference, URI with rootless path, absolute path, under an authority). Each result is compared component by component with the reference normal form, normalised a second time (idempotence), and the mask-required laws are checked per URI. distinct_nontrivial = distinct expected normal-form texts.") + ", " +
           jkv("corpus_uris", st.get("corpus")) + ", " + jkv("normalize_calls", st.get("normalize_calls")) + ", " + jkv("cases_where_normal_form_differs_from_input", st.get("cases_where_normal_form_differs_from_input")) + ", " +
           jkv("alt_spelling_used", st.get("alt_spelling_used")) + ", " + jkv("mask_required_zero", st.get("mask_required_zero")) + ", " + jkv("stretch_family_texts", st.get("stretch_family")) + ", " + jkv("all_triplet_uris", st.get("all_triplets")) + ", " + jkv("raw_character_sweep_uris", st.get("raw_character_sweep")) + ", " + jsamples(st);
}
Check chk = { "C08", "exploration", run, replay, coverage, "reference normal form (harness/ref.cpp) follows RFC 3986 6.2.2.1-3; where a relative path reduces to the current directory both '.' and './' are accepted|IPv6 hosts are compared through address bytes and recomposed text" };
REGISTER_CHECK(chk);
}
