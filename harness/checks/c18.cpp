// C18 - filename <-> URI string conversions round-trip within the documented buffer sizes.
#include "../core.h"
#include "../plat.h"
#include "../obs.h"
#include "../gen.h"
#include "../dfa.h"
#include "checks/corpus.h"

namespace {
struct Local { uint64_t names = 0, unix_rt = 0, win_drive = 0, win_unc = 0, win_rel = 0, not_judged = 0, short_forms = 0; };

template <class C> struct Runner {
    typedef Api<C> A; OutBuf uri_buf, name_buf; FenceBuf in; Ctx *ctx; Local *lc;
    Runner(Ctx *c, Local *l, size_t pages = 4) : uri_buf(pages), name_buf(pages), in(pages), ctx(c), lc(l) {}
    const C *place(const Str &s) { std::basic_string<C> z = widen<C>(s); z.push_back((C)0); return (const C *)in.put_end(z.data(), z.size() * sizeof(C)); }
    // converts a URI string back; the destination has exactly the documented size
    bool back(const Str &uri, bool to_unix, Str &out, Str &what) {
        bool absolute = uri.compare(0, 5, "file:") == 0;
        size_t cap = uri.size() + 1 - (absolute ? 5 : 0);
        C *dst = (C *)name_buf.end_minus(cap * sizeof(C)); const C *src = place(uri); int sig;
        if ((sig = GUARD_ENTER()) != 0) { what = fmt("%s converting '%s' back: wrote beyond the documented len(uriString)+1%s characters", signame(sig), esc(uri).c_str(), absolute ? "-5" : ""); return false; }
        // the destination is an OUT parameter: the call runs once over a zeroed buffer and once over one filled with "%41%41..", and both must give the same name
        Str outs[2];
        for (int pf = 0; pf < 2; pf++) {
            for (size_t i = 0; i < cap; i++) dst[i] = pf == 0 ? (C)0 : (C)"%41"[i % 3];
            int rc = to_unix ? A::UriStringToUnixFilename(src, dst) : A::UriStringToWindowsFilename(src, dst);
            if (rc != URI_SUCCESS) { GUARD_LEAVE(); what = fmt("back-conversion rc=%d", rc); return false; }
            size_t n = 0; while (n < cap && dst[n]) n++; if (n >= cap) { GUARD_LEAVE(); what = "no terminator in the filename buffer"; return false; }
            outs[pf] = narrow<C>(dst, dst + n);
        }
        GUARD_LEAVE();
        if (outs[0] != outs[1]) { what = fmt("back-conversion of '%s' depends on what the output buffer held before the call: '%s' over zeros, '%s' over text", esc(uri).c_str(), esc(outs[0]).c_str(), esc(outs[1]).c_str()); return false; }
        out = outs[0]; return true;
    }
    void one(const Str &name, int dir /*0 unix, 1 windows*/) {
        Str enc = name + fmt("`%d`%s", dir, A::name()); Str what; ctx->progress++;
        bool absolute, judged = true; const char *kind = "";
        if (dir == 0) { absolute = !name.empty() && name[0] == '/'; kind = "unix"; }
        else {
            bool unc = name.size() >= 2 && name[0] == '\\' && name[1] == '\\';
            bool drive_shape = name.size() >= 2 && name[1] == ':';
            absolute = unc || drive_shape;
            if (name.find('/') != Str::npos) judged = false;                                   // not "backslash separators only"
            else if (unc) { size_t e = name.find('\\', 2); Str server = name.substr(2, e == Str::npos ? Str::npos : e - 2); if (server.empty()) judged = false; kind = "unc"; }
            else if (drive_shape) { if (!ref::is_alpha((unsigned char)name[0])) judged = false; kind = "drive"; }
            else kind = "relative";
        }
        size_t cap = 3 * name.size() + 1 + (absolute ? (dir == 0 ? 7 : 8) : 0);
        C *dst = (C *)uri_buf.end_minus(cap * sizeof(C)); const C *src = place(name); int sig;
        if ((sig = GUARD_ENTER()) != 0) { ctx->violation("", enc, fmt("%s: wrote beyond the documented %s3n+1 characters", signame(sig), absolute ? (dir == 0 ? "7+" : "8+") : "")); return; }
        int rc = dir == 0 ? A::UnixFilenameToUriString(src, dst) : A::WindowsFilenameToUriString(src, dst); GUARD_LEAVE();
        if (rc != URI_SUCCESS) { ctx->violation("", enc, fmt("rc=%d", rc)); return; }
        size_t n = 0; while (n < cap && dst[n]) n++;
        if (n >= cap) { ctx->violation("", enc, "no terminator within the documented size"); return; }
        Str uri = narrow<C>(dst, dst + n);
        if (!judged) { lc->not_judged++; return; }
        // form and validity
        DfaRun d = dfa_run<char>(uri.data(), (int)uri.size());
        if (!d.accept) what = "URI string '" + esc(uri) + "' is not a valid URI reference";
        else if (dir == 0 && absolute && uri.compare(0, 8, "file:///") != 0) what = "absolute Unix name does not become file:///...: '" + esc(uri) + "'";
        else if (dir == 1 && !strcmp(kind, "drive") && !(uri.compare(0, 8, "file:///") == 0 && uri.size() >= 10 && uri[9] == ':')) what = "drive name does not become file:///X:...: '" + esc(uri) + "'";
        else if (dir == 1 && !strcmp(kind, "unc") && !(uri.compare(0, 7, "file://") == 0 && uri.size() > 7 && uri[7] != '/')) what = "UNC name does not become file://server...: '" + esc(uri) + "'";
        else if (!absolute && uri.compare(0, 5, "file:") == 0) what = "relative name became an absolute file: URI";
        else if (!absolute) { ref::RUri r; if (ref::decompose(uri, r) && (r.scheme.present || r.has_authority)) what = "relative name became a URI with scheme or authority: '" + esc(uri) + "'"; }
        Str b;
        if (what.empty() && back(uri, dir == 0, b, what) && b != name) what = "converts to '" + esc(uri) + "' and back to '" + esc(b) + "'";
        if (what.empty()) { if (dir == 0) lc->unix_rt++; else if (!strcmp(kind, "drive")) lc->win_drive++; else if (!strcmp(kind, "unc")) lc->win_unc++; else lc->win_rel++; }
        // short forms accepted on input
        if (what.empty() && dir == 0 && absolute && (name.size() < 2 || name[1] != '/')) { lc->short_forms++; Str sf = "file:" + uri.substr(7); if (back(sf, true, b, what) && b != name) what = "short form '" + esc(sf) + "' converts to '" + esc(b) + "'"; }
        if (what.empty() && dir == 1 && !strcmp(kind, "drive")) { lc->short_forms++; Str sf = "file:" + uri.substr(8); if (back(sf, false, b, what) && b != name) what = "short form '" + esc(sf) + "' converts to '" + esc(b) + "'"; }
        if (!what.empty()) ctx->violation("", enc, what);
    }
};

// wchar_t only: names holding a code point above 255.  The statement's round trip has no exception for them; the library escapes the low
// byte only (the open finding of C16, inherited by the wide filename functions).  Classified by defect emulation: the URI string must be exactly
// what the char API produces for the same name with a placeholder byte in that place, with the placeholder's triplet replaced by the low byte's.
static void wide_case(Ctx &ctx, Local &lc, unsigned long x, int shape) {
    static const char *PRE[] = { "/tmp/", "a/", "C:\\a", "\\\\srv\\", "d\\" }; int dir = shape < 2 ? 0 : 1; bool absolute = shape == 0 || shape == 2 || shape == 3;
    std::wstring name = widen<wchar_t>(PRE[shape]); name += (wchar_t)x; name += L'z'; Str enc = fmt("H%lx.%d`%d`W", x, shape, dir); lc.names++;
    size_t cap = 3 * name.size() + 1 + (absolute ? (dir == 0 ? 7 : 8) : 0); std::vector<wchar_t> uri(cap + 1, (wchar_t)0x55), back(cap + 1, (wchar_t)0x55); int sig;
    if ((sig = GUARD_ENTER()) != 0) { ctx.violation("", enc, fmt("%s converting a wide name with a code point above 255", signame(sig))); return; }
    int rc = dir == 0 ? uriUnixFilenameToUriStringW(name.c_str(), &uri[0]) : uriWindowsFilenameToUriStringW(name.c_str(), &uri[0]);
    size_t n = 0; while (n <= cap && uri[n]) n++;
    int rc2 = (rc == URI_SUCCESS && n < cap) ? (dir == 0 ? uriUriStringToUnixFilenameW(&uri[0], &back[0]) : uriUriStringToWindowsFilenameW(&uri[0], &back[0])) : -1;
    Str ph = PRE[shape]; ph += '\x01'; ph += 'z'; std::vector<char> au(3 * ph.size() + 16, 0); if (dir == 0) uriUnixFilenameToUriStringA(ph.c_str(), &au[0]); else uriWindowsFilenameToUriStringA(ph.c_str(), &au[0]);
    GUARD_LEAVE();
    if (rc != URI_SUCCESS || n >= cap) { ctx.violation("", enc, fmt("wide name with U+%lX: rc=%d or no terminator within the documented size", x, rc)); return; }
    Str text = narrow<wchar_t>(&uri[0], &uri[0] + n); bool ascii = true; for (size_t i = 0; i < n; i++) if ((unsigned long)uri[i] > 127) ascii = false;
    DfaRun d = dfa_run<char>(text.data(), (int)text.size());
    if (!ascii || !d.accept) { ctx.violation("", enc, "URI string '" + esc(text) + "' is not a valid URI reference"); return; }
    if (rc2 == URI_SUCCESS && std::wstring(&back[0]) == name) return;
    static const char *HX = "0123456789ABCDEF"; Str emu = &au[0], trip = "%"; trip += HX[(x >> 4) & 15]; trip += HX[x & 15]; size_t at = emu.find("%01"); if (at != Str::npos) emu.replace(at, 3, trip);
    ctx.violation(text == emu ? "C18-wide-code-point-above-255" : "", enc, fmt("a wide name containing U+%lX converts to '%s' and not back to itself", x, esc(text).c_str()));
}
void run(Ctx &ctx) {
    Local lc; Runner<char> ra(&ctx, &lc); Runner<wchar_t> rw(&ctx, &lc); SanWatch sw; int L = (ctx.secondary ? 3 : ctx.quick() ? 5 : 6) + ctx.bonus;
    all_strings(ctx, Str("aC:/\\ %#?.41\x01\xff", 14), L, [&](const Str &s) { if (ctx.expired()) return; lc.names++; for (int dir = 0; dir < 2; dir++) { ra.one(s, dir); rw.one(s, dir); } });
    // every byte value in every kind of position (first character, after a separator, inside a UNC server name, after a drive prefix)
    { uint64_t bi = 0; for (int c = 1; c < 256; c++) { if (!ctx.mine(bi++)) continue; Str x(1, (char)c);
        for (auto &nm : { x, "a" + x, "/" + x + "/a", "/a" + x + "b", "C:\\" + x, "C:\\a" + x, "\\\\" + x + "\\a", "\\\\s" + x + "\\" + x, "a\\" + x + "b", x + x + x, x + ":\\a", x + ":", x + ":\\", x + ":a\\b", "/" + x + ":/a" }) { lc.names++; for (int dir = 0; dir < 2; dir++) { ra.one(nm, dir); rw.one(nm, dir); } } } }
    // stretch family: one unit repeated to lengths around the powers of two
    { Runner<char> sa(&ctx, &lc, 1600); Runner<wchar_t> sb(&ctx, &lc, 1600); uint64_t si = 0; std::vector<int> SL = stretch_lengths(ctx.secondary ? 0 : ctx.quick() ? 1 : 2);
      for (const char *u : { "a", " ", "/a", "\\a", "%", "\xc3\xa4", "a/", "a\\" }) for (const char *pre : { "", "/", "C:\\", "\\\\srv\\" }) for (int n : SL) {
          if (!ctx.mine(si++) || ctx.expired()) continue; Str s = pre; for (int i = 0; i < n; i++) s += u; if (s.size() > 66000) continue; lc.names++; ctx.st.count("stretch_family");
          for (int dir = 0; dir < 2; dir++) { sa.one(s, dir); sb.one(s, dir); } } }
    if (ctx.worker == 0) for (unsigned long x : { 0x100ul, 0x141ul, 0x20ACul, 0x10041ul, 0x263Aul }) for (int shape = 0; shape < 5; shape++) wide_case(ctx, lc, x, shape);
    if (sw.tripped()) ctx.violation("", "a`0`A", "AddressSanitizer reported an invalid access");
    ctx.st.count("evaluations", lc.names * 4); ctx.st.count("names", lc.names); ctx.st.count("unix_roundtrips", lc.unix_rt); ctx.st.count("windows_drive_roundtrips", lc.win_drive); ctx.st.count("windows_unc_roundtrips", lc.win_unc);
    ctx.st.count("windows_relative_roundtrips", lc.win_rel); ctx.st.count("outside_domain_not_judged", lc.not_judged); ctx.st.count("short_forms", lc.short_forms);
    if (ctx.worker == 0) { ctx.st.count("L", L); ctx.st.sample("windows 'C:\\\\a %#' -> file:///C:/a%20%25%23"); ctx.st.sample("windows '\\\\\\\\a:b\\\\?' (UNC)"); ctx.st.sample("unix '/a:b/ .'"); }
}
void replay(Ctx &ctx, const Str &enc) { size_t q2 = enc.rfind('`'); if (q2 == Str::npos || q2 == 0) return; size_t q1 = enc.rfind('`', q2 - 1); if (q1 == Str::npos) return;   // the name itself may hold a back-tick
    std::vector<Str> p = { enc.substr(0, q1), enc.substr(q1 + 1, q2 - q1 - 1), enc.substr(q2 + 1) }; Local lc; { unsigned long x = 0; int shape = 0; if (p[2] == "W" && sscanf(p[0].c_str(), "H%lx.%d", &x, &shape) == 2 && x > 255 && shape >= 0 && shape < 5) { wide_case(ctx, lc, x, shape); return; } } if (p[2] == "A") { Runner<char> r(&ctx, &lc, 1600); r.one(p[0], atoi(p[1].c_str())); } else { Runner<wchar_t> r(&ctx, &lc, 1600); r.one(p[0], atoi(p[1].c_str())); } }
Str coverage(const Ctx &, const Stats &st) {
    return jkv("evaluations", st.get("evaluations")) + ", " + jkv("distinct_nontrivial", st.get("unix_roundtrips") + st.get("windows_drive_roundtrips") + st.get("windows_unc_roundtrips") + st.get("windows_relative_roundtrips")) + ", " +
           jkvs("rule", "cases = (filename, direction, char type): all strings up to length L over {a, C, :, /, \\\\, space, %, #, ?, ., 4, 1, 0x01, 0xFF}; Unix direction judges every name; Windows direction judges backslash-only names that are drive-absolute (letter + ':'), UNC with non-empty server, or relative; other names are converted (must not overrun) but not judged. Output buffers have exactly the documented size (7/8+3n+1, 3n+1, len+1-5, len+1) and end at an inaccessible page. Oracle: round trip, spec-DFA validity of the URI string, documented form, short forms file:/x and file:c:/x. distinct_nontrivial = judged round trips completed, counted.") + ", " +
           jkv("names", st.get("names")) + ", " + jkv("max_len", st.get("L")) + ", " + jkv("unix_roundtrips", st.get("unix_roundtrips")) + ", " + jkv("windows_drive_roundtrips", st.get("windows_drive_roundtrips")) + ", " + jkv("windows_unc_roundtrips", st.get("windows_unc_roundtrips")) + ", " +
           jkv("windows_relative_roundtrips", st.get("windows_relative_roundtrips")) + ", " + jkv("outside_domain_not_judged", st.get("outside_domain_not_judged")) + ", " + jkv("short_forms", st.get("short_forms")) + ", " + jkv("stretch_family_names", st.get("stretch_family")) + ", " + jsamples(st);
}
Check chk = { "C18", "exploration", run, replay, coverage, "Windows names containing '/', names with ':' as second character after a non-letter, and UNC names with an empty server are outside the statement's domain: converted under the memory fence but not judged" };
REGISTER_CHECK(chk);
}
