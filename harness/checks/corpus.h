// URI corpora: the shape product (Cartesian product of component alternatives, thinned by level, never sampled)
// and path-token sequences.
#pragma once
#include "../core.h"
#include "../ref.h"
#include <functional>

struct Alt { const char *text; int level; };   // text == 0 means "absent"; level 0 = small, 1 = medium, 2 = large

static const Alt SH_SCHEME[] = { {0, 0}, {"s", 0}, {"S", 1}, {"a+.-1", 2} };
static const Alt SH_USER[] = { {0, 0}, {"u", 0}, {"", 1}, {"u:p", 1}, {"%41%3a", 1}, {"u:1", 2}, {":", 2} };
static const Alt SH_HOST[] = { {"h", 0}, {"", 0}, {"[::1]", 0}, {"1.2.3.4", 0}, {"100.99.10.255", 1}, {"H.x", 1}, {"a%41%2d%3A", 1}, {"[v1.x]", 1}, {"[A:b::1.2.3.4]", 1}, {"[1111:2222:3333:4444:5555:6666:255.255.255.255]", 1}, {"[0:00:000:0000:0:0:0:0]", 2}, {"1.2.3.256", 2}, {"[vF.X:y]", 2} };
static const Alt SH_PORT[] = { {0, 0}, {"80", 0}, {"", 1} };
static const Alt SH_PATH[] = { {"", 0}, {"/", 0}, {"a", 0}, {"/a", 0}, {"a/b", 0}, {"/a/b", 0}, {"..", 0}, {"./a:b", 0}, {"/a/", 1}, {"a/", 1}, {"//", 1}, {".", 1}, {"../a", 1},
                               {"a/./b/../c", 1}, {"%41/%2e/%2E%2e", 1}, {"/a//b", 2}, {"a:b", 2}, {"/../a", 2}, {"/%7e%7E", 2} };
static const Alt SH_QUERY[] = { {0, 0}, {"q", 0}, {"", 1}, {"a=b&c=%41%2f/?", 1} };
static const Alt SH_FRAG[] = { {0, 0}, {"f", 0}, {"", 1}, {"%41/?", 2} };
#define NALT(a) (int)(sizeof(a) / sizeof(a[0]))

// visit(text) for every grammatically valid combination with all alternatives of level <= size
template <class F> void shape_product(int size, F visit) {
    for (int si = 0; si < NALT(SH_SCHEME); si++) { if (SH_SCHEME[si].level > size) continue;
    for (int ai = -1; ai < NALT(SH_USER) * NALT(SH_HOST) * NALT(SH_PORT); ai++) {
        Str auth; bool has_auth = ai >= 0;
        if (has_auth) {
            const Alt &u = SH_USER[ai % NALT(SH_USER)], &h = SH_HOST[(ai / NALT(SH_USER)) % NALT(SH_HOST)], &p = SH_PORT[ai / NALT(SH_USER) / NALT(SH_HOST)];
            if (u.level > size || h.level > size || p.level > size) continue;
            // keep the small corpus small: userinfo/port only on the first host there
            if (size == 0 && (u.text || p.text) && strcmp(h.text, "h") != 0) continue;
            auth = "//"; if (u.text) auth += Str(u.text) + "@"; auth += h.text; if (p.text) auth += Str(":") + p.text;
        }
        for (int pi = 0; pi < NALT(SH_PATH); pi++) { if (SH_PATH[pi].level > size) continue;
            Str path = SH_PATH[pi].text;
            if (has_auth && !path.empty() && path[0] != '/') continue;
            if (!has_auth && path.compare(0, 2, "//") == 0) continue;
            for (int qi = 0; qi < NALT(SH_QUERY); qi++) { if (SH_QUERY[qi].level > size) continue;
            for (int fi = 0; fi < NALT(SH_FRAG); fi++) { if (SH_FRAG[fi].level > size) continue;
                Str s; if (SH_SCHEME[si].text) s += Str(SH_SCHEME[si].text) + ":";
                s += auth + path;
                if (SH_QUERY[qi].text) s += Str("?") + SH_QUERY[qi].text;
                if (SH_FRAG[fi].text) s += Str("#") + SH_FRAG[fi].text;
                if (!ref::is_uri_reference(s)) continue;       // e.g. "a:b" without scheme is fine (a is the scheme) but then duplicates; "./a:b" etc.
                visit(s);
            } }
        }
    } }
}
static inline std::vector<Str> shape_list(int size) {
    std::vector<Str> v; std::set<Str> seen;
    shape_product(size, [&](const Str &s) { if (seen.insert(s).second) v.push_back(s); });
    return v;
}

// All segment lists of length 0..n over `tokens`, rendered as path text. kind: 0 rootless, 1 absolute.
// An empty list renders as "" (rootless) or "/" (absolute); a rootless list whose text would start with '/' is skipped
// (it is the absolute list of the remaining tokens).
static inline std::vector<Str> path_token_paths(const std::vector<Str> &tokens, int n, int kind) {
    std::vector<Str> out; std::vector<int> cur;
    std::function<void()> rec = [&]() {
        Str p; for (size_t i = 0; i < cur.size(); i++) { if (i) p += "/"; p += tokens[cur[i]]; }
        if (kind == 1) p = "/" + p;
        if (!(kind == 0 && !p.empty() && p[0] == '/')) out.push_back(p);
        if ((int)cur.size() >= n) return;
        for (size_t i = 0; i < tokens.size(); i++) { cur.push_back((int)i); rec(); cur.pop_back(); }
    };
    rec();
    return out;
}

// The stretch family: every component in turn blown up to lengths around the powers of two, so that counters, offsets and
// sizes kept in too narrow a type (unsigned char, short, a fixed scratch array) show.  size 0: up to 257, 1: up to 4097,
// 2: up to 65537 repetitions.  Templates hold one "{unit}" slot.  Valid URI references unless `tail` is appended by the caller.
static inline std::vector<int> stretch_lengths(int size) {
    std::vector<int> v; int top = size == 0 ? 256 : size == 1 ? 4096 : 65536;
    for (int p = 16; p <= top; p *= (p < 256 ? 2 : (p < 4096 ? 4 : 16))) { v.push_back(p - 1); v.push_back(p); v.push_back(p + 1); }
    return v;
}
static const char *STRETCH_TEMPLATES[] = {
    "{a}:x", "{s+}://h", "//{u}@h", "//{%41}@h", "//{:}@h:1", "//{h}/", "//{H.}x:80", "//{%2d}", "//h:{1}", "//h:{0}/p", "/{a}", "{a}/b", "{a/}", "{/}", "/x{/}", "{../}x", "{./}x", "/{a/../}",
    "{c:d/}e", "./{:}", "?{q}", "?{=&}", "#{f}", "#{/?}", "{%2f}", "{%7e}", "/{%2E%2e/}", "//[v1.{a}]", "//[v{1}.a]", "//[vF.{:}]/", "s://u:p@H:8/{a/}b?{q=%41&}#{f}",
    "//h/{a}/{b}", "s:{a}", "s:{a/}", "s:?{q}", "//1.2.3.4/{a}", "//[::1]:{1}", "//u@[A::b]/{a/}?{q}",
    // dot-segment machinery under length: many removed segments in front of a path that needs its guard, long segments that only start like dot segments
    "{./}c:d", "{x/../}c:d", "{./}/b", "/{./}/b", "{x/../}/b/c", "x/.{a}/g", "x/..{a}/g", "/.{a}", "/y/..{.}/z", "//h/{a/}{../}b"
};
static inline Str stretch_make(const char *tpl, int n) {
    Str out; for (const char *p = tpl; *p; p++) {
        if (*p != '{') { out += *p; continue; }
        const char *e = strchr(p, '}'); Str unit(p + 1, e); out.reserve(out.size() + unit.size() * (size_t)n + 64); for (int i = 0; i < n; i++) out += unit; p = e;
    }
    return out;
}
// visit(text) for every template x length (a template with several slots stretches all of them; lengths are capped so that no text exceeds ~400 k characters)
template <class F> void stretch_family(int size, F visit) {
    std::vector<int> L = stretch_lengths(size);
    for (const char *t : STRETCH_TEMPLATES) { int slots = 0; for (const char *p = t; *p; p++) if (*p == '{') slots++;
        for (int n : L) { if (slots > 1 && n > 4097) continue; visit(stretch_make(t, n)); } }
}
static inline std::vector<Str> stretch_list(int size) { std::vector<Str> v; stretch_family(size, [&](const Str &s) { v.push_back(s); }); return v; }
