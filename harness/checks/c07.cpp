// C07 - every URI object the library returns keeps its meaning when written and read back, and stays well formed.
// Explicit-state BFS: a state is a URI object (canonical key, no addresses), a transition is one real API call.
#include "../core.h"
#include "fixture.h"
#include "corpus.h"
#include "resolve_sets.h"
#include "../dfa.h"
#include <deque>
#include <unordered_set>
#include <memory>

namespace {
struct Local { uint64_t states = 0, transitions = 0, replays = 0, max_depth = 0, noop = 0, twins = 0; std::map<Str, uint64_t> by_op; };
static const char *BASES[] = { "s://h/a/b?q", "s:/a/b", "s:a/b", "s:", "s://h", "t://g/x//y", "s://u@h:1/", "s:/" };
enum { NB = 8 };

static std::vector<Str> all_ops() {
    std::vector<Str> v;
    for (int m : { 1, 2, 4, 8, 16, 32, 63, 5, 24 }) v.push_back(fmt("N%d", m));
    v.push_back("O"); v.push_back("P");
    for (int b = 0; b < NB; b++) { v.push_back(fmt("R%d.0", b)); v.push_back(fmt("R%d.1", b)); v.push_back(fmt("B%d", b)); v.push_back(fmt("S%d.0", b)); v.push_back(fmt("S%d.1", b)); v.push_back(fmt("T%d.0", b)); v.push_back(fmt("T%d.1", b)); }
    return v;
}

template <class C> struct World {     // owns every object a history creates; results borrow from earlier ones, so all stay alive
    typedef Api<C> A; typedef typename A::Uri Uri;
    std::deque<std::basic_string<C> > texts; std::deque<Uri> uris; Uri bases[NB]; std::basic_string<C> base_text[NB];
    World() { for (int i = 0; i < NB; i++) { base_text[i] = widen<C>(BASES[i]); const C *ep; A::ParseSingleUriEx(&bases[i], base_text[i].data(), base_text[i].data() + base_text[i].size(), &ep); } }
    ~World() { for (auto &u : uris) A::FreeUriMembers(&u); for (int i = 0; i < NB; i++) A::FreeUriMembers(&bases[i]); }
    // every text is parsed as a range in front of a '5' (a digit, a hex digit, an octet's third digit): what follows the range is no part of
    // the URI, and an object whose content was decided by it does not survive being written and read back
    Uri *parse(const Str &t) { texts.push_back(widen<C>(t + "5")); uris.emplace_back(); const C *ep; int rc = A::ParseSingleUriEx(&uris.back(), texts.back().data(), texts.back().data() + texts.back().size() - 1, &ep); return rc == URI_SUCCESS ? &uris.back() : 0; }
    // returns the new current object; *rc receives the library's code; not_applicable when the op has no meaning for this state
    Uri *apply(const Str &op, Uri *cur, int *rc, bool *na) {
        *na = false; *rc = URI_SUCCESS; char k = op[0]; int b = 0, o = 0;
        if (k == 'N') { *rc = A::NormalizeSyntaxEx(cur, (unsigned)atoi(op.c_str() + 1)); return cur; }
        if (k == 'O') { *rc = A::MakeOwner(cur); return cur; }
        if (k == 'P') { int trc; Str t = to_text<C>(*cur, &trc); if (trc) { *rc = trc; return cur; } Uri *n = parse(t); if (!n) { *rc = URI_ERROR_SYNTAX; return cur; } return n; }
        sscanf(op.c_str() + 1, "%d.%d", &b, &o);
        bool absolute = cur->scheme.first != 0;
        uris.emplace_back(); Uri *d = &uris.back(); memset(d, 0, sizeof *d);
        if (k == 'R') *rc = A::AddBaseUriEx(d, cur, &bases[b], o ? URI_RESOLVE_IDENTICAL_SCHEME_COMPAT : URI_RESOLVE_STRICTLY);
        else if (!absolute) { *na = true; return cur; }
        else if (k == 'B') *rc = A::AddBaseUri(d, &bases[b], cur);
        else if (k == 'S') *rc = A::RemoveBaseUri(d, cur, &bases[b], o);
        else if (k == 'T') *rc = A::RemoveBaseUri(d, &bases[b], cur, o);
        return d;
    }
};

template <class C> struct Explorer {
    typedef Api<C> A; typedef typename A::Uri Uri;
    Ctx *ctx; Local *lc; std::vector<Str> ops;
    Explorer(Ctx *c, Local *l) : ctx(c), lc(l), ops(all_ops()) {}
    static Str enc(const Str &init, const std::vector<Str> &hist) { Str e = init + "`"; for (size_t i = 0; i < hist.size(); i++) { if (i) e += ";"; e += hist[i]; } return e + "`" + A::name(); }

    // the invariant of the property, evaluated on one object
    Str invariant(const Uri &u) {
        UriObs o = observe<C>(u);
        const RangeObs *rs[] = { &o.scheme, &o.userinfo, &o.host, &o.port, &o.query, &o.fragment, &o.ipfuture };
        for (auto r : rs) if (r->kind == 3) return "a component range is malformed (one NULL end, or first > afterLast)";
        for (auto &s : o.segs) if (s.kind == 0 || s.kind == 3) return "a path segment has a NULL or malformed range";
        if (!o.tail_ok) return "pathTail is not the last node of the path list";
        if (!o.head_tail_consistent) return "pathHead/pathTail NULL-ness inconsistent";
        if (o.has_host() && o.abs) return "absolutePath is set although a host is present";
        if (o.hostkind() < 0) return "host data inconsistent (several kinds set, or kind without hostText)";
        if (o.raw_abs != 0 && o.raw_abs != 1) return "absolutePath holds junk";
        if (o.raw_owner != 0 && o.raw_owner != 1) return "owner holds junk";
        int rc = 0; Str t = to_text<C>(u, &rc);
        if (rc != URI_SUCCESS) return fmt("recomposition fails with %d", rc);
        DfaRun d = dfa_run<char>(t.data(), (int)t.size());
        if (!d.accept) return "recomposed text '" + t + "' is not a URI reference";
        std::basic_string<C> w = widen<C>(t); Uri v; const C *ep;
        if (A::ParseSingleUriEx(&v, w.data(), w.data() + w.size(), &ep) != URI_SUCCESS) { A::FreeUriMembers(&v); return "recomposed text '" + t + "' does not parse"; }
        UriObs p = observe<C>(v);
        // C11 on library-made objects: the object and the URI read back from its text have identical texts, so they must compare equal,
        // in both orders; and the mask-required query must not tell them apart either
        bool e1 = A::EqualsUri(&u, &v) == URI_TRUE, e2 = A::EqualsUri(&v, &u) == URI_TRUE; unsigned m1 = A::NormalizeSyntaxMaskRequired(&u), m2 = A::NormalizeSyntaxMaskRequired(&v);
        A::FreeUriMembers(&v);
        Str what;
        if (!e1 || !e2) return "the object does not compare equal to the URI read back from its own text '" + t + "'";
        if (m1 != m2) return fmt("mask-required query gives %u on the object and %u on the URI read back from its text '", m1, m2) + t + "'";
        auto same = [](const RangeObs &a, const RangeObs &b) { return (a.kind != 0) == (b.kind != 0) && a.text == b.text; };
        if (!same(o.scheme, p.scheme)) what = "scheme " + o.scheme.key() + " reads back as " + p.scheme.key();
        else if (o.has_host() != p.has_host()) what = Str("authority ") + (o.has_host() ? "present" : "absent") + " in the object, " + (p.has_host() ? "present" : "absent") + " after reading back";
        else if (!same(o.userinfo, p.userinfo)) what = "user info " + o.userinfo.key() + " reads back as " + p.userinfo.key();
        else if (o.hostkind() != p.hostkind()) what = fmt("host kind %d reads back as %d", o.hostkind(), p.hostkind());
        else if ((o.hostkind() == ref::HK_IP4 || o.hostkind() == ref::HK_IP6) ? o.ip != p.ip : o.host.text != p.host.text) what = "host " + o.host.key() + " reads back as " + p.host.key();
        else if (!same(o.port, p.port)) what = "port " + o.port.key() + " reads back as " + p.port.key();
        else if (o.path_text() != p.path_text()) what = "path '" + o.path_text() + "' reads back as '" + p.path_text() + "'";
        else if (!same(o.query, p.query)) what = "query " + o.query.key() + " reads back as " + p.query.key();
        else if (!same(o.fragment, p.fragment)) what = "fragment " + o.fragment.key() + " reads back as " + p.fragment.key();
        if (!what.empty()) return what + " (text '" + t + "')";
        return "";
    }
    // replay a history on fresh objects; returns key of the final object ("" if the history is not executable)
    Str replay(const Str &init, const std::vector<Str> &hist, Str *viol, bool *progressed) {
        World<C> w; Uri *cur = w.parse(init); if (!cur) { if (ref::is_uri_reference(init)) ctx->harness_error("initial text does not parse: " + init); return ""; }   // the deliberately malformed initial texts are expected to be refused
        lc->replays++; *progressed = true;
        for (size_t i = 0; i < hist.size(); i++) {
            int rc; bool na; bool last = i + 1 == hist.size(); Str before = last ? observe<C>(*cur).key() : Str();
            // differential twin: the same operation applied to the object re-read from its own text must give the same text
            // (a library-made object and its written-and-read-back copy mean the same, so every later call must treat them alike)
            int trc0 = 0; Str twin_text = last && hist[i][0] != 'P' ? to_text<C>(*cur, &trc0) : Str();
            Uri *n = w.apply(hist[i], cur, &rc, &na);
            if (na) return "";
            if (rc != URI_SUCCESS) { if (last) *viol = fmt("operation %s returned %d", hist[i].c_str(), rc); return ""; }
            if (last && hist[i][0] != 'P' && trc0 == URI_SUCCESS) {
                Uri *tw = w.parse(twin_text);
                if (tw) { int rc2; bool na2; Uri *n2 = w.apply(hist[i], tw, &rc2, &na2); lc->twins++;
                    if (!na2) { int t1 = 0, t2 = 0; Str r1 = to_text<C>(*n, &t1), r2 = rc2 == URI_SUCCESS ? to_text<C>(*n2, &t2) : Str();
                        if (rc2 != URI_SUCCESS || t1 != t2 || r1 != r2) { *viol = fmt("operation %s gives '%s' on the library-made object but '%s' (rc %d) on the object re-read from its text '%s'", hist[i].c_str(), r1.c_str(), r2.c_str(), rc2, twin_text.c_str()); } } }
            }
            if (i + 1 == hist.size() && n == cur && observe<C>(*cur).key() == before) *progressed = false;
            cur = n;
        }
        Str inv = invariant(*cur); if (!inv.empty()) *viol = inv;
        return observe<C>(*cur).key();
    }
    void explore(const std::vector<Str> &inits, int depth) {
        struct Node { Str init; std::vector<Str> hist; Str key; };
        std::deque<Node> frontier; std::unordered_set<Str> seen;
        for (auto &t : inits) {
            Str v; bool pr; int sig;
            if ((sig = GUARD_ENTER()) != 0) { ctx->violation("", enc(t, {}), fmt("%s while parsing/inspecting", signame(sig))); continue; }
            Str k = replay(t, {}, &v, &pr); GUARD_LEAVE();
            if (!v.empty()) ctx->violation("", enc(t, {}), v);
            if (k.empty() || !seen.insert(k).second) continue;
            lc->states++; frontier.push_back(Node{ t, {}, k });
        }
        while (!frontier.empty()) {
            if (ctx->expired()) break;
            Node nd = frontier.front(); frontier.pop_front(); ctx->progress++;
            if (nd.hist.size() > lc->max_depth) lc->max_depth = nd.hist.size();
            if ((int)nd.hist.size() >= depth) continue;
            for (auto &op : ops) {
                std::vector<Str> h = nd.hist; h.push_back(op); Str v; bool pr = true; int sig; SanWatch sw;
                if ((sig = GUARD_ENTER()) != 0) { ctx->violation("", enc(nd.init, h), fmt("%s during %s", signame(sig), op.c_str())); continue; }
                Str k = replay(nd.init, h, &v, &pr); GUARD_LEAVE();
                if (sw.tripped()) ctx->violation("", enc(nd.init, h), "AddressSanitizer reported an invalid access");
                if (!v.empty()) ctx->violation("", enc(nd.init, h), v);
                if (k.empty()) continue;
                lc->transitions++; lc->by_op[op.substr(0, 1)]++;
                if (!pr) { lc->noop++; continue; }
                if (seen.insert(k).second) { lc->states++; frontier.push_back(Node{ nd.init, h, k }); }
            }
        }
    }
};

static std::vector<Str> initial_states(int size) {
    std::vector<Str> v = shape_list(0); std::set<Str> seen(v.begin(), v.end());
    std::vector<Str> tok = { "", ".", "..", "a", "c:d", "1:e", ":", "b:", "%2e", "A%41" };
    int n = size == 0 ? 1 : size == 1 ? 2 : 3;
    std::vector<Str> rl = path_token_paths(tok, n, 0), ab = path_token_paths(tok, n, 1);
    auto add = [&](const Str &s) { if (ref::is_uri_reference(s) && seen.insert(s).second) v.push_back(s); };
    for (auto &p : rl) { add(p); add("s:" + p); }
    for (auto &p : ab) { add(p); add("s:" + p); add("//h" + p); add("s://H" + p + "?q#f"); }
    // percent-encoded delimiters in every component (decoding one of them would move a component boundary when the text is read back)
    for (auto t : { "%2F", "%2f", "%3A", "%3a", "%40", "%3F", "%23", "%5B", "%5D", "%25", "%2E", "%2e%2E" }) {
        Str x = t; add("//u" + x + "x@h/"); add("//h" + x + "x/p"); add("//" + x); add("/a" + x + "b"); add("a" + x + "b/c"); add(x + "/b"); add("s:" + x + "b"); add("?" + x); add("#" + x); add("s://u@h" + x + ":1/" + x + "?" + x + "#" + x);
    }
    // registered names that become the text of an IPv4 address once their triplets are decoded
    for (auto h : { "1%2E2.3.4", "%31.2.3.4", "1.2.3.%34", "1%2e2.3.256", "100.99.10.255", "1%30%30.100.9.0", "255.255%2E255.255" }) { add(Str("//") + h + "/x"); add(Str("s://u@") + h + ":1"); }
    // IPvFuture literals holding every kind of character the rule allows next to upper-case letters (case folding of the literal must touch letters only)
    for (auto h : { "[V1.Ab_Cd]", "[vA.~-_.!$&'()*+,;=:Z]", "[v1F.Q_q]" }) { add(Str("S://") + h + "/x"); add(Str("//u@") + h + ":1"); }
    for (auto t : { "/a%4", "?q%4", "s://h/x#%4", "//u%4@h", "//h%4" }) v.push_back(t);    // no URI references: a parse that accepts one of them (helped by the character behind the range) yields an object whose text does not read back
    for (auto t : { "//10.0.0.25", "s://u@1.2.3.25", "//10.0.0.2%35/p", "s://10.0.0.%32%35", "//h/a%41", "?q%41", "#f%2e" }) add(t);   // texts whose last token could be continued by the character behind the range
    // deeper paths over a reduced alphabet: runs of empty segments behind dot segments
    if (size >= 1) { std::vector<Str> d0 = path_token_paths({ "", ".", "..", "b" }, n + 2, 0), d1 = path_token_paths({ "", ".", "..", "b" }, n + 2, 1);
        for (auto &p : d0) { add(p); add("s:" + p); } for (auto &p : d1) { add(p); add("s:" + p); add("//h" + p); } }
    return v;
}

void run(Ctx &ctx) {
    Local lc; int depth = (ctx.secondary ? 1 : ctx.quick() ? 3 : 4) + ctx.bonus; /* wchar_t depth; char explores deeper */ int size = ctx.secondary ? 0 : ctx.quick() ? 1 : 2;
    if (getenv("VERIF_C07_DEPTH")) depth = atoi(getenv("VERIF_C07_DEPTH")) - 1;
    std::vector<Str> all = initial_states(size), mine;
    for (size_t i = 0; i < all.size(); i++) if (ctx.mine(i)) mine.push_back(all[i]);
    { Explorer<char> ex(&ctx, &lc); ex.explore(mine, ctx.secondary ? depth : ctx.quick() ? depth + 1 : depth + 3); }
    { Explorer<wchar_t> ex(&ctx, &lc); ex.explore(mine, depth); }
    ctx.st.count("states", lc.states); ctx.st.count("transitions", lc.transitions); ctx.st.count("evaluations", lc.replays); ctx.st.count("self_loops", lc.noop); ctx.st.count("twin_comparisons", lc.twins);
    for (auto &kv : lc.by_op) ctx.st.count("op_" + kv.first, kv.second);
    ctx.st.distinct("max_depth", fmt("%llu", (unsigned long long)lc.max_depth));
    if (ctx.worker == 0) { ctx.st.count("initial_states", all.size()); ctx.st.sample("a/../c:d ; N8 ; R1.0 ; P"); ctx.st.sample("s:/.//c:d ; N63"); ctx.st.sample("//h/../a ; S0.1 ; O ; N8"); }
}
void replay(Ctx &ctx, const Str &enc) {
    std::vector<Str> p = split(enc, '`'); if (p.size() != 3) return; Local lc; std::vector<Str> h; if (!p[1].empty()) h = split(p[1], ';'); Str v; bool pr;
    int sig; if ((sig = GUARD_ENTER()) != 0) { ctx.violation("", enc, fmt("%s while replaying", signame(sig))); return; }
    if (p[2] == "A") { Explorer<char> ex(&ctx, &lc); ex.replay(p[0], h, &v, &pr); } else { Explorer<wchar_t> ex(&ctx, &lc); ex.replay(p[0], h, &v, &pr); }
    GUARD_LEAVE();
    if (!v.empty()) ctx.violation("", enc, v);
}
Str coverage(const Ctx &, const Stats &st) {
    uint64_t md = 0; auto it = st.sets.find("max_depth"); if (it != st.sets.end()) for (auto &s : it->second) md = std::max<uint64_t>(md, strtoull(s.c_str(), 0, 10));
    return jkv("states", st.get("states")) + ", " + jkv("transitions", st.get("transitions")) + ", " + jkv("traces_validated_against_impl", st.get("evaluations")) + ", " +
           jkv("evaluations", st.get("evaluations")) + ", " + jkv("distinct_nontrivial", st.get("states")) + ", " + jkv("max_depth", md) + ", " + jkv("initial_states", st.get("initial_states")) + ", " + jkv("self_loops", st.get("self_loops")) + ", " + jkv("differential_twin_comparisons", st.get("twin_comparisons")) + ", " +
           jkv("transitions_normalize", st.get("op_N")) + ", " + jkv("transitions_make_owner", st.get("op_O")) + ", " + jkv("transitions_reparse", st.get("op_P")) + ", " + jkv("transitions_resolve_as_reference", st.get("op_R")) + ", " +
           jkv("transitions_resolve_as_base", st.get("op_B")) + ", " + jkv("transitions_shorten_as_source", st.get("op_S")) + ", " + jkv("transitions_shorten_as_base", st.get("op_T")) + ", " +
           jkvs("rule", "explicit-state breadth-first search run directly on the implementation: a state is a URI object identified by a canonical key (recomposable content, NULL/empty/non-empty per component, host kind and bytes, segment list, absolutePath, owner, ipFuture aliasing, tail validity - no addresses); a transition is one real call (normalize with 9 masks, makeOwner, resolve as reference against 8 bases x 2 options, resolve as base, shorten as source / as base x 2 modes, write-and-reparse); objects are rebuilt by replaying their history on fresh objects; the invariant (recomposes, text is in the language, re-parse preserves scheme/authority parts/path text/query/fragment, structure well formed) is evaluated in every state. states are deduplicated per worker (each worker owns a share of the initial states), so `states` may count a state reached from two workers twice; distinct_nontrivial = states.") + ", " + jsamples(st);
}
Check chk = { "C07", "model_checking", run, replay, coverage, "two objects with the same canonical key are indistinguishable to every later library call (the key is over-fine: it keeps owner and NULL-vs-empty)|depth bound: quick 4 (char) / 3 (wchar_t), thorough 7 / 4; the reachable set keeps growing with depth (paths get longer), so no fixpoint is claimed" };
REGISTER_CHECK(chk);
}
