// C02 - parsed components are exactly the sub-ranges RFC 3986 assigns; host kind and address bytes are right.
#include "../core.h"
#include "../plat.h"
#include "../mm.h"
#include "../obs.h"
#include "parse_sets.h"
#include "corpus.h"

namespace {
struct Local { uint64_t strings = 0, accepted = 0, calls = 0; uint64_t kinds[5] = {0,0,0,0,0}; uint64_t with_segments = 0, empty_components = 0, placeholder_empty = 0; std::set<Str> shapes; };

template <class C> struct Runner {
    FenceBuf fb; Ledger led; Ctx *ctx; Local *lc;
    Runner(Ctx *c, Local *l, size_t pages = 4) : fb(pages), ctx(c), lc(l) {}
    void bad(const Str &s, const char *entry, const Str &what) { ctx->violation("", s, fmt("%s entry=%s type=%s", what.c_str(), entry, Api<C>::name())); }
    void cmp_comp(const Str &s, const char *entry, const char *name, const RangeObs &o, const ref::Comp &e) {
        if (o.kind == 3) { bad(s, entry, fmt("%s range malformed (one pointer NULL or first > afterLast)", name)); return; }
        if (!e.present) { if (o.kind != 0) bad(s, entry, fmt("%s reported present (%s) but absent in the text", name, esc(o.text).c_str())); return; }
        if (o.kind == 0) { bad(s, entry, fmt("%s reported absent but present in the text (%s)", name, esc(e.text).c_str())); return; }
        if (o.text != e.text) { bad(s, entry, fmt("%s text %s, expected %s", name, esc(o.text).c_str(), esc(e.text).c_str())); return; }
        if (!e.text.empty()) { if (o.off != e.off) bad(s, entry, fmt("%s at offset %ld, expected %d", name, o.off, e.off)); }
        else { lc->empty_components++; if (o.off == LONG_MIN) lc->placeholder_empty++; else if (o.off != e.off) bad(s, entry, fmt("empty %s at offset %ld, expected %d (or a placeholder outside the input)", name, o.off, e.off)); }
    }
    void check(const Str &s, const char *entry, const typename Api<C>::Uri &u, const C *p, int n, const ref::RUri &e) {
        lc->calls++;
        UriObs o = observe<C>(u, p, p + n);
        cmp_comp(s, entry, "scheme", o.scheme, e.scheme); cmp_comp(s, entry, "userInfo", o.userinfo, e.userinfo);
        cmp_comp(s, entry, "portText", o.port, e.port); cmp_comp(s, entry, "query", o.query, e.query); cmp_comp(s, entry, "fragment", o.fragment, e.fragment);
        ref::Comp eh; eh.present = e.has_authority; eh.text = e.host.text; eh.off = e.host.off;
        cmp_comp(s, entry, "hostText", o.host, eh);
        int hk = o.hostkind();
        if (hk != e.hostkind) bad(s, entry, fmt("host kind %d (bits %d), expected %d", hk, o.hostbits, e.hostkind));
        else if (hk == ref::HK_IP4 && o.ip != Str((const char *)e.ip, 4)) bad(s, entry, "IPv4 bytes differ from the value written");
        else if (hk == ref::HK_IP6 && o.ip != Str((const char *)e.ip, 16)) bad(s, entry, "IPv6 bytes differ from the value written: got " + esc(ref::ipv6_full((const unsigned char *)o.ip.data())) + " expected " + ref::ipv6_full(e.ip));
        else if (hk == ref::HK_FUTURE && !(o.ipfuture.text == o.host.text && o.ipfuture.off == o.host.off)) bad(s, entry, "ipFuture range differs from hostText range");
        std::vector<Str> es = e.segments(); std::vector<int> eo = e.segment_offsets();
        if (o.segs.size() != es.size()) bad(s, entry, fmt("%zu path segments, expected %zu", o.segs.size(), es.size()));
        else for (size_t i = 0; i < es.size(); i++) {
            if (o.segs[i].kind == 0 || o.segs[i].kind == 3) { bad(s, entry, fmt("segment %zu has a NULL or malformed range", i)); break; }
            if (o.segs[i].text != es[i]) { bad(s, entry, fmt("segment %zu is %s, expected %s", i, esc(o.segs[i].text).c_str(), esc(es[i]).c_str())); break; }
            if (!es[i].empty() && o.segs[i].off != eo[i]) { bad(s, entry, fmt("segment %zu at offset %ld, expected %d", i, o.segs[i].off, eo[i])); break; }
            if (es[i].empty() && o.segs[i].off != LONG_MIN && o.segs[i].off != eo[i]) { bad(s, entry, fmt("empty segment %zu at offset %ld, expected %d or placeholder", i, o.segs[i].off, eo[i])); break; }
        }
        if (!o.tail_ok) bad(s, entry, "pathTail is not the last node of the list");
        if (!o.head_tail_consistent) bad(s, entry, "pathHead/pathTail NULL-ness inconsistent");
        if (o.raw_abs != (e.abs_flag() ? URI_TRUE : URI_FALSE)) bad(s, entry, fmt("absolutePath=%d, expected %d", o.raw_abs, (int)e.abs_flag()));
        if (o.raw_owner != URI_FALSE) bad(s, entry, "owner flag set on a freshly parsed URI");
        if (!es.empty()) lc->with_segments++;
    }
    void run(const Str &s8, const ref::RUri &e, bool all_entries) {
        typedef Api<C> A; typedef typename A::Uri Uri; typedef typename A::State State;
        std::basic_string<C> s = widen<C>(s8); int n = (int)s.size(); int sig;
        if ((sig = GUARD_ENTER()) == 0) {
            const C *p = (const C *)fb.put_end(s.data(), (size_t)n * sizeof(C));
            { Uri u; memset(&u, 0xEE, sizeof u); const C *ep = 0; int rc = A::ParseSingleUriEx(&u, p, p + n, &ep); if (rc == URI_SUCCESS) check(s8, "ParseSingleUriEx", u, p, n, e); else bad(s8, "ParseSingleUriEx", fmt("rc=%d on a string of the language", rc)); A::FreeUriMembers(&u); }
            if (all_entries) {
                { Uri u; memset(&u, 0xEE, sizeof u); State st; memset(&st, 0xEE, sizeof st); st.uri = &u; int rc = A::ParseUriEx(&st, p, p + n); if (rc == URI_SUCCESS) check(s8, "ParseUriEx", u, p, n, e); A::FreeUriMembers(&u); }
                { Uri u; memset(&u, 0xEE, sizeof u); const C *ep = 0; led.clear_injection(); int rc = A::ParseSingleUriExMm(&u, p, p + n, &ep, &led.mm); if (rc == URI_SUCCESS) check(s8, "ParseSingleUriExMm", u, p, n, e); A::FreeUriMembersMm(&u, &led.mm); if (!led.live.empty()) led.reset(); }
                if (s8.find('\0') == Str::npos) {
                    std::basic_string<C> z = s; z.push_back((C)0); const C *q = (const C *)fb.put_end(z.data(), z.size() * sizeof(C));
                    { Uri u; memset(&u, 0xEE, sizeof u); const C *ep = 0; int rc = A::ParseSingleUri(&u, q, &ep); if (rc == URI_SUCCESS) check(s8, "ParseSingleUri", u, q, n, e); A::FreeUriMembers(&u); }
                    { Uri u; memset(&u, 0xEE, sizeof u); const C *ep = 0; int rc = A::ParseSingleUriEx(&u, q, 0, &ep); if (rc == URI_SUCCESS) check(s8, "ParseSingleUriEx(afterLast=NULL)", u, q, n, e); A::FreeUriMembers(&u); }
                    { Uri u; memset(&u, 0xEE, sizeof u); State st; memset(&st, 0xEE, sizeof st); st.uri = &u; int rc = A::ParseUri(&st, q); if (rc == URI_SUCCESS) check(s8, "ParseUri", u, q, n, e); A::FreeUriMembers(&u); }
                }
            }
            GUARD_LEAVE();
        } else { ctx->violation("", s8, fmt("%s while parsing (type=%s)", signame(sig), Api<C>::name())); led.reset(); }
    }
};

// the stand-alone IPv4 text parser (uriParseIpFourAddress): success exactly on four dec-octets, bytes equal to the values written
template <class C> void ip4_case(Ctx &ctx, FenceBuf &fb, const Str &t) {
    std::basic_string<C> w = widen<C>(t); const C *p = (const C *)fb.put_end(w.data(), w.size() * sizeof(C)); unsigned char got[4] = { 0xEE, 0xEE, 0xEE, 0xEE }, want[4]; int sig;
    bool ok = ref::parse_ipv4(t, want);
    if ((sig = GUARD_ENTER()) != 0) { ctx.violation("", "ip4:" + t, fmt("%s in uriParseIpFourAddress (type=%s)", signame(sig), Api<C>::name())); return; }
    int rc = Api<C>::ParseIpFourAddress(got, p, p + w.size()); GUARD_LEAVE();
    if (ok != (rc == URI_SUCCESS) || (rc != URI_SUCCESS && rc != URI_ERROR_SYNTAX)) ctx.violation("", "ip4:" + t, fmt("uriParseIpFourAddress rc=%d, expected %s (type=%s)", rc, ok ? "success" : "URI_ERROR_SYNTAX", Api<C>::name()));
    else if (ok && memcmp(got, want, 4) != 0) ctx.violation("", "ip4:" + t, fmt("uriParseIpFourAddress gives %u.%u.%u.%u (type=%s)", got[0], got[1], got[2], got[3], Api<C>::name()));
}
struct Both {
    Local lc; Runner<char> ra; Runner<wchar_t> rw; Ctx &ctx;
    Both(Ctx &c, size_t pages = 4) : ra(&c, &lc, pages), rw(&c, &lc, pages), ctx(c) {}
    void run(const char *s, int n, bool all_entries) {
        ctx.progress++; lc.strings++;
        DfaRun d = dfa_run<char>(s, n); Str s8(s, n); ref::RUri e; bool ok = ref::decompose(s8, e);
        if (ok != d.accept) { ctx.harness_error("spec DFA and reference recogniser disagree on " + esc(s8)); return; }
        if (!ok) return;
        lc.accepted++; lc.kinds[e.hostkind]++;
        if (lc.shapes.size() < 50000) lc.shapes.insert(fmt("%d%d%d%d%d%d%d%zu", e.scheme.present, e.has_authority, e.userinfo.present, e.hostkind, e.port.present, e.query.present, e.fragment.present, e.segments().size()));
        ra.run(s8, e, all_entries); rw.run(s8, e, all_entries);
    }
};

void run(Ctx &ctx) {
    Both b(ctx); SetSizes z = parse_set_sizes(ctx, 0);
    w_method_set(ctx, z.k, [&](const char *s, int n, int) { b.run(s, n, false); });
    brute_force_classes(ctx, z.L, [&](const char *s, int n, int) { b.run(s, n, true); });
    ip6_product(ctx, z.ip_groups3, z.ip_groups4, [&](const Str &s) { b.run(s.data(), (int)s.size(), true); });
    ipfuture_product(ctx, z.fut_len, [&](const Str &s) { b.run(s.data(), (int)s.size(), true); });
    if (z.octets) octet_product(ctx, [&](const Str &s) { b.run(s.data(), (int)s.size(), true); });
    if (z.octets) { octet_sweep(ctx, [&](const Str &s) { b.run(s.data(), (int)s.size(), true); }); hexgroup_sweep(ctx, [&](const Str &s) { b.run(s.data(), (int)s.size(), true); }); dotted_family(ctx, [&](const Str &s) { b.run(s.data(), (int)s.size(), true); }); userinfo_ip_family(ctx, [&](const Str &s) { b.run(s.data(), (int)s.size(), true); }); }
    uint64_t idx = 0;
    shape_product(ctx.secondary ? 0 : ctx.quick() ? 1 : 2, [&](const Str &s) { if (ctx.mine(idx++)) b.run(s.data(), (int)s.size(), true); });
    { Both bs(ctx, 520); uint64_t si = 0; stretch_family(ctx.secondary ? 0 : ctx.quick() ? 1 : 2, [&](const Str &s) { if (ctx.mine(si++) && !ctx.expired()) { bs.run(s.data(), (int)s.size(), true); ctx.st.count("stretch_family"); } });
      b.lc.strings += bs.lc.strings; b.lc.accepted += bs.lc.accepted; b.lc.calls += bs.lc.calls; for (int i = 0; i < 5; i++) b.lc.kinds[i] += bs.lc.kinds[i]; b.lc.empty_components += bs.lc.empty_components; b.lc.placeholder_empty += bs.lc.placeholder_empty; for (auto &x : bs.lc.shapes) b.lc.shapes.insert(x); }
    if (z.octets) {
        static const char *oc[22] = { "0", "9", "10", "99", "100", "199", "200", "249", "250", "255", "256", "260", "300", "00", "01", "1a", "", "19", "20", "25", "26", "29" };
        uint64_t oi = 0; for (int a = 0; a < 22; a++) for (int b2 = 0; b2 < 22; b2++) { if (!ctx.mine(oi++) || ctx.expired()) continue; for (int c = 0; c < 22; c++) for (int d = 0; d < 22; d++) {
            Str h = Str(oc[a]) + "." + oc[b2] + "." + oc[c] + "." + oc[d]; ip4_case<char>(ctx, b.ra.fb, h); ip4_case<wchar_t>(ctx, b.rw.fb, h); ctx.st.count("ip4_parser_cases"); } }
        all_strings(ctx, "0125.9a", ctx.secondary ? 5 : 7, [&](const Str &s) { if (ctx.expired()) return; ip4_case<char>(ctx, b.ra.fb, s); ip4_case<wchar_t>(ctx, b.rw.fb, s); ctx.st.count("ip4_parser_cases"); });
    }
    ctx.st.count("evaluations", b.lc.strings); ctx.st.count("accepted_strings", b.lc.accepted); ctx.st.count("parse_results_compared", b.lc.calls);
    ctx.st.count("host_regname", b.lc.kinds[1]); ctx.st.count("host_ip4", b.lc.kinds[2]); ctx.st.count("host_ip6", b.lc.kinds[3]); ctx.st.count("host_ipfuture", b.lc.kinds[4]);
    ctx.st.count("empty_components", b.lc.empty_components); ctx.st.count("empty_components_using_placeholder", b.lc.placeholder_empty);
    for (auto &s : b.lc.shapes) ctx.st.distinct("shapes", s);
    if (ctx.worker == 0) { ctx.st.sample("s://u:p@[A:b::1.2.3.4]:80/a/./b/../c?a=b&c=%41%2f/?#%41/?"); ctx.st.sample("//@:"); ctx.st.sample("//[::1.2.3.4]"); ctx.st.count("param_k", z.k); ctx.st.count("param_L", z.L); }
}
void replay(Ctx &ctx, const Str &enc) { if (enc.compare(0, 4, "ip4:") == 0) { FenceBuf fb(4); ip4_case<char>(ctx, fb, enc.substr(4)); ip4_case<wchar_t>(ctx, fb, enc.substr(4)); return; }
    Both b(ctx, 520); b.run(enc.data(), (int)enc.size(), true); }
Str coverage(const Ctx &, const Stats &st) {
    return jkv("states", DFA_NSTATES) + ", " + jkv("transitions", (uint64_t)(DFA_NSTATES - 1) * 256) + ", " + jkv("traces_validated_against_impl", st.get("parse_results_compared")) + ", " +
           jkv("evaluations", st.get("evaluations")) + ", " + jkv("distinct_nontrivial", st.nset("shapes")) + ", " +
           jkvs("rule", "cases = strings of the C01 sets (W-method set with k, class brute force to L, IPv6/IPvFuture/dec-octet products) plus the shape product; every ACCEPTED string is parsed through the entry points in both character types and every reported component is compared (presence, text, offset into the input) with the reference Appendix-B decomposition. distinct_nontrivial = number of distinct component shapes (scheme/authority/userinfo/host kind/port/query/fragment presence x segment count) among accepted strings.") + ", " +
           jkv("accepted_strings", st.get("accepted_strings")) + ", " + jkv("host_regname", st.get("host_regname")) + ", " + jkv("host_ip4", st.get("host_ip4")) + ", " + jkv("host_ip6", st.get("host_ip6")) + ", " + jkv("host_ipfuture", st.get("host_ipfuture")) + ", " +
           jkv("empty_components", st.get("empty_components")) + ", " + jkv("empty_components_using_placeholder", st.get("empty_components_using_placeholder")) + ", " +
           jkv("k_extra_states", st.get("param_k")) + ", " + jkv("bruteforce_length", st.get("param_L")) + ", " + jkv("stretch_family_strings", st.get("stretch_family")) + ", " + jkv("ip4_text_parser_cases", st.get("ip4_parser_cases")) + ", " + jsamples(st);
}
Check chk = { "C02", "model_checking", run, replay, coverage, "reference decomposition (harness/ref.cpp, RFC 3986 Appendix B + component grammar) agrees with the spec DFA on every enumerated string (checked on every run)|IPv6 value per RFC 4291 text form" };
REGISTER_CHECK(chk);
}
