// C09 - normalisation never changes what a reference identifies (differential N.R.N == N.R), and never
// changes the kind of a reference (scheme / authority presence, path kind).
#include "../core.h"
#include "fixture.h"
#include "resolve_sets.h"

namespace {
struct Local { uint64_t refs = 0, pairs = 0, kind_checks = 0, changed_by_norm = 0; std::set<Str> targets; };
static const char *KF_EMPTY = "C09-relative-path-becomes-empty";

template <class C> struct Runner {
    typedef Api<C> A; typedef typename A::Uri Uri;
    ArenaMM base_mem; Ctx *ctx; Local *lc; std::vector<RoUri<C> > bases;
    Runner(Ctx *c, Local *l) : base_mem(512), ctx(c), lc(l) {}
    void setup(const std::vector<Str> &bt) { for (auto &t : bt) { RoUri<C> b = make_ro<C>(base_mem, t); if (b.ok) bases.push_back(b); else ctx->harness_error("base does not parse: " + t); } base_mem.arena.protect(); }
    static Str enc(const Str &ref, const Str &base) { return ref + "`" + base + "`" + A::name(); }
    static int path_kind(const UriObs &o) { Str p = o.path_text(); return p.empty() ? 0 : p[0] == '/' ? 2 : 1; }
    struct Parsed { std::basic_string<C> text; Uri u; bool ok; };
    void parse(Parsed &p, const Str &t) { p.text = widen<C>(t); const C *ep = 0; p.ok = A::ParseSingleUriEx(&p.u, p.text.data(), p.text.data() + p.text.size(), &ep) == URI_SUCCESS; }
    // resolve + normalise; returns recomposed text, "" on failure
    bool res_norm(const Uri &r, const Uri &b, Uri *out, Str &txt) {
        if (A::AddBaseUri(out, &r, &b) != URI_SUCCESS) return false;
        if (A::NormalizeSyntax(out) != URI_SUCCESS) { A::FreeUriMembers(out); return false; }
        int rc = 0; txt = to_text<C>(*out, &rc); return rc == URI_SUCCESS;
    }
    void run_ref(const Str &rt, int only_base = -1) { SanWatch sw; run_ref2(rt, only_base); if (sw.tripped()) ctx->violation("", enc(rt, ""), "AddressSanitizer reported an invalid access"); }
    void run_ref2(const Str &rt, int only_base) {
        lc->refs++; ref::RUri rr; if (!ref::decompose(rt, rr)) { ctx->harness_error("bad reference " + rt); return; }
        Parsed R, NR; parse(R, rt); parse(NR, rt);
        if (!R.ok || !NR.ok) { ctx->harness_error("reference does not parse: " + rt); return; }
        int sig;
        if ((sig = GUARD_ENTER()) != 0) { ctx->violation("", enc(rt, ""), fmt("%s while normalising the reference", signame(sig))); return; }
        UriObs before = observe<C>(NR.u);
        int rc = A::NormalizeSyntax(&NR.u);
        UriObs after = observe<C>(NR.u);
        GUARD_LEAVE();
        if (rc != URI_SUCCESS) { ctx->violation("", enc(rt, ""), fmt("normalisation failed with %d", rc)); A::FreeUriMembers(&R.u); A::FreeUriMembers(&NR.u); return; }
        int trc; Str ntext = to_text<C>(NR.u, &trc);
        if (ntext != rt) lc->changed_by_norm++;
        // the known defect: a non-empty relative path that reduces to "the current directory" is written as ""
        ref::Normal nn; ref::normalize(rr, ref::N_ALL, nn);
        bool known_empty = !rr.scheme.present && !rr.has_authority && !rr.path.empty() && rr.path[0] != '/' && nn.u.path.empty() && !nn.path_alts.empty() && after.path_text().empty();
        // clause 2: kind preservation
        lc->kind_checks++;
        Str what;
        if ((before.scheme.kind != 0) != (after.scheme.kind != 0)) what = "normalisation added or removed the scheme";
        else if (before.has_host() != after.has_host()) what = "normalisation added or removed the authority";
        else if (before.scheme.kind == 0 && !before.has_host()) {
            int k0 = path_kind(before), k1 = path_kind(after);
            static const char *kn[] = { "empty", "relative", "absolute" };
            if (k0 != k1) what = fmt("normalisation turned a %s path into a(n) %s path ('%s' -> '%s')", kn[k0], kn[k1], before.path_text().c_str(), after.path_text().c_str());
            else if (k0 != 0 && before.abs != after.abs) what = "normalisation changed the absolutePath flag";
        }
        if (!what.empty()) ctx->violation(known_empty ? KF_EMPTY : "", enc(rt, ""), what);
        // also: the normalised text must re-parse to the same kind (scheme / authority not conjured from path content)
        { ref::RUri nr; if (!ref::decompose(ntext, nr)) ctx->violation("", enc(rt, ""), "normalised text '" + ntext + "' is not a URI reference");
          else if (nr.scheme.present != rr.scheme.present || nr.has_authority != rr.has_authority) ctx->violation("", enc(rt, ""), "normalised text '" + ntext + "' reads back with a different scheme/authority presence"); }
        // clause 1: differential against every base
        Parsed DOT; bool have_dot = false;
        if (known_empty) { ref::RUri d = rr; d.path = "./"; parse(DOT, ref::recompose(d)); have_dot = DOT.ok; }
        for (size_t bi = 0; bi < bases.size(); bi++) {
            if (only_base >= 0 && (int)bi != only_base) continue;
            lc->pairs++; ctx->progress++;
            if ((sig = GUARD_ENTER()) == 0) {
                Uri t1, t2; Str s1, s2; bool ok1 = res_norm(NR.u, *bases[bi].u, &t1, s1), ok2 = res_norm(R.u, *bases[bi].u, &t2, s2);
                Str w;
                if (!ok1 || !ok2) w = "resolution or normalisation failed";
                else {
                    bool eq = A::EqualsUri(&t1, &t2) == URI_TRUE;
                    if (s1 != s2) w = "N(resolve(N(R),B)) = '" + s1 + "' but N(resolve(R,B)) = '" + s2 + "'";
                    else if (!eq) w = "texts agree ('" + s1 + "') but uriEqualsUri says the two results differ";
                    if (lc->targets.size() < 20000) lc->targets.insert(s2);
                }
                if (!w.empty()) {
                    Str f;
                    if (known_empty && have_dot && ok2) { Uri t3; Str s3; if (res_norm(DOT.u, *bases[bi].u, &t3, s3)) { if (s3 == s2) f = KF_EMPTY; A::FreeUriMembers(&t3); } }
                    ctx->violation(f, enc(rt, bases[bi].text), w + " [N(R) = '" + ntext + "']");
                }
                if (ok1) A::FreeUriMembers(&t1);
                if (ok2) A::FreeUriMembers(&t2);
                GUARD_LEAVE();
            } else ctx->violation("", enc(rt, bases[bi].text), fmt("%s during resolve/normalise", signame(sig)));
        }
        if (have_dot) A::FreeUriMembers(&DOT.u);
        A::FreeUriMembers(&R.u); A::FreeUriMembers(&NR.u);
    }
};
void run(Ctx &ctx) {
    Local lc; int n = (ctx.secondary ? 2 : ctx.quick() ? 4 : 5) + ctx.bonus;
    std::vector<Str> bases = resolve_bases(false), refs = resolve_refs(n, false);
    Runner<char> ra(&ctx, &lc); Runner<wchar_t> rw(&ctx, &lc); ra.setup(bases); rw.setup(bases);
    for (size_t i = 0; i < refs.size(); i++) { if (!ctx.mine(i)) continue; if (ctx.expired()) break; ra.run_ref(refs[i]); if (n <= 4 || i % 1 == 0) rw.run_ref(refs[i]); }
    // references with an authority: every user info x host kind x port combination (and a few spellings that normalisation changes), over four paths
    { std::vector<Str> aus = authority_product(); for (auto x : { "//H", "//%41", "//U%2d@H%7e:8", "//u@1%2e2.3.4:80", "//[V1.A]:1", "//[::A]" }) aus.push_back(x); uint64_t ai = 0;
      for (auto &au : aus) for (auto sc : { "", "s:", "S:" }) for (auto pa : { "", "/", "/a/../b", "/%7e/./x" }) for (auto q : { "", "?q" }) { Str r = Str(sc) + au + pa + q;
          if (!ctx.mine(ai++) || ctx.expired() || !ref::is_uri_reference(r)) continue; ra.run_ref(r); rw.run_ref(r); ctx.st.count("authority_product_refs"); } }
    // a first remaining segment with a colon behind a character that cannot be part of a scheme, or with the colon as its last character
    { uint64_t ci = 0; for (auto seg : { "a_b:c", "~u:1", "%7E:b", "1@b:c", "k=v:w", "b:", "a:b:", "!:x" }) for (auto form : { "x/../%s", "./%s", "x/../%s/d", "x/y/../../%s", "./x/../%s?q", "%s" }) {
          Str r = fmt(form, seg); if (!ctx.mine(ci++) || ctx.expired() || !ref::is_uri_reference(r)) continue; ra.run_ref(r); rw.run_ref(r); ctx.st.count("colon_segment_refs"); } }
    // stretch family as references (no percent-encoded dot segments, as the statement says) against a few bases
    { std::vector<Str> sb = { "s://h/a/b?bq", "s:/a/b", "s:a/b", "s:", "s://h" }; Runner<char> sa(&ctx, &lc); Runner<wchar_t> sw2(&ctx, &lc); sa.setup(sb); sw2.setup(sb);
      std::vector<Str> st = stretch_list(ctx.secondary || ctx.quick() ? 0 : 1);
      for (size_t i = 0; i < st.size(); i++) { if (!ctx.mine(i)) continue; if (ctx.expired()) break; if (st[i].find("%2E") != Str::npos || st[i].find("%2e") != Str::npos) continue; sa.run_ref(st[i]); sw2.run_ref(st[i]); ctx.st.count("stretch_family"); } }
    ctx.st.count("evaluations", lc.pairs); ctx.st.count("references", lc.refs); ctx.st.count("kind_checks", lc.kind_checks); ctx.st.count("references_changed_by_normalisation", lc.changed_by_norm);
    for (auto &s : lc.targets) ctx.st.distinct("targets", s);
    if (ctx.worker == 0) { ctx.st.count("bases", bases.size()); ctx.st.count("param_n", n); ctx.st.sample("R=a/../b/./c:d B=s://u@h:1/a/b?bq"); ctx.st.sample("R=.//b B=s:a/b"); ctx.st.sample("R=//h/../b?q#f B=s:/a/.."); }
}
void replay(Ctx &ctx, const Str &enc) {
    std::vector<Str> p = split(enc, '`'); if (p.size() != 3) return; Local lc; std::vector<Str> bases;
    if (!p[1].empty()) bases.push_back(p[1]); else bases = resolve_bases(false);
    if (p[2] == "A") { Runner<char> r(&ctx, &lc); r.setup(bases); r.run_ref(p[0], p[1].empty() ? 1000000 : 0); }
    else { Runner<wchar_t> r(&ctx, &lc); r.setup(bases); r.run_ref(p[0], p[1].empty() ? 1000000 : 0); }
}
Str coverage(const Ctx &, const Stats &st) {
    return jkv("evaluations", st.get("evaluations")) + ", " + jkv("distinct_nontrivial", st.nset("targets")) + ", " +
           jkvs("rule", "cases = (reference R, base B, char type): R ranges over {no scheme, s:} x {no authority, //h} x all path-token sequences up to length n over {'', '.', '..', a, b, c:d} (rootless and absolute) x {no query, ?q} x {no fragment, #f}; B over all absolute bases of the C06 set. Oracle is differential: normalise(resolve(normalise(R), B)) must equal normalise(resolve(R, B)) textually and by uriEqualsUri; per R the kind (scheme, authority, empty/relative/absolute path) must survive normalisation. distinct_nontrivial = distinct normalised targets observed.") + ", " +
           jkv("references", st.get("references")) + ", " + jkv("bases", st.get("bases")) + ", " + jkv("path_tokens_max", st.get("param_n")) + ", " + jkv("kind_checks", st.get("kind_checks")) + ", " +
           jkv("references_changed_by_normalisation", st.get("references_changed_by_normalisation")) + ", " + jkv("stretch_family_references", st.get("stretch_family")) + ", " + jsamples(st);
}
Check chk = { "C09", "exploration", run, replay, coverage, "differential oracle: uses the library's own resolver on both sides (its conformance is C06's subject)|percent-encoded dot segments are excluded as the statement says" };
REGISTER_CHECK(chk);
}
