// Corpus for the normalisation family (C08, C09, C12).
#pragma once
#include "corpus.h"
#include "../gen.h"
static inline std::vector<Str> norm_tokens() { return { "", ".", "..", "a", "c:d", "1:b", ":", "b:" /* a colon as the LAST character of a segment */, "%2e", "%2E%2E", "A", "%41", "%7e" }; }

// size 0: small, 1: quick, 2: thorough
static inline std::vector<Str> norm_corpus(int size, int bonus = 0) {
    std::vector<Str> v; std::set<Str> seen;
    auto add = [&](const Str &s) { if (ref::is_uri_reference(s) && seen.insert(s).second) v.push_back(s); };
    // (a) component product with case / percent-encoding variants
    std::vector<const char *> scheme = { 0, "s", "S", "aB+c" }, user = { 0, "u", "%41%7e", "%3a%3A", "U%2dx", "u%3a" },
        host = { "", "h", "H", "A%3a%41", "%7E.x", "H%2f", "x%3Ay", "%3a", "1.2.3.4", "[::A]", "[vF.X]", "[VF.x%]", "1%2E2.3.4", "%31.2.3.%34", "1%2e2.3.256", "255.255%2E255.255", "100.200.100%2e%3125" }, port = { 0, "80" },
        path = { "", "/", "/a", "/%41", "/%7e/%2F/%2f", "a", "%61/B", "/a/%2e/%2E%2E/b", "..", "./%3a", "/x%7e", "/%7ex", "/%4ax" },
        query = { 0, "", "%41%3d%3D", "q=%7E", "%41x", "x%7e" }, frag = { 0, "%41", "F%2f" };
    if (size == 0) { scheme = { 0, "S" }; user = { 0, "%41%7e" }; host = { "H", "A%3a%41", "H%2f", "[::A]", "[vF.X]" }; port = { 0 }; path = { "", "/%7e/%2F/%2f", "%61/B", "/a/%2e/%2E%2E/b" }; query = { 0, "q=%7E" }; frag = { 0, "F%2f" }; }
    for (auto sc : scheme) for (int hi = -1; hi < (int)host.size(); hi++) for (auto us : user) for (auto po : port) {
        if (hi < 0 && (us || po)) continue;
        Str auth; if (hi >= 0) { auth = "//"; if (us) auth += Str(us) + "@"; auth += host[hi]; if (po) auth += Str(":") + po; }
        for (auto pa : path) { Str p = pa; if (hi >= 0 && !p.empty() && p[0] != '/') continue;
            for (auto q : query) for (auto f : frag) add(Str(sc ? Str(sc) + ":" : "") + auth + p + (q ? Str("?") + q : "") + (f ? Str("#") + f : ""));
        }
    }
    // (b) path-token sequences in four contexts
    int n = (size == 0 ? 2 : size == 1 ? 3 : 4) + bonus;
    std::vector<Str> rl = path_token_paths(norm_tokens(), n, 0), ab = path_token_paths(norm_tokens(), n, 1);
    for (auto &p : rl) { add(p); add("s:" + p); add(p + "?q#f"); }
    for (auto &p : ab) { add(p); add("s:" + p); add("//h" + p); add("S://H" + p + "#f"); }
    // (c) sequences of percent-encoding / case tokens inside every component that normalisation touches: every adjacency of
    //     normal-form triplets, lower-case-hex triplets, triplets of unreserved characters and plain letters
    std::vector<Str> tk = { "a", "A", "%2F", "%2f", "%41", "%7e", "%3A", "-" }; if (size >= 1) { tk.push_back("%7E"); tk.push_back("%4a"); }
    token_seqs(tk, (size == 0 ? 2 : size == 1 ? 3 : 4) + bonus, [&](const std::vector<int> &q) {
        if (q.empty()) return; Str t; for (int i : q) t += tk[i];
        add("//" + t + "@h"); add("//" + t); add("/" + t); add("x/" + t + "/y"); add("?" + t); add("#" + t); add("S://u@" + t + ":1/p");
    });
    return v;
}
