// C20 - concurrent calls on distinct objects are safe; the library holds no writable shared state.
// (1) preemption-bounded exhaustive exploration of 2-3 threads under a serialising scheduler, scheduling points at every
//     allocator call (plain flavour) or at every basic-block edge of the library (trace-pc flavour);
// (2) byte-for-byte comparison of the library's writable data sections after every schedule; shared inputs in PROT_READ memory.
// A free-running ThreadSanitizer pass of the same bodies on real threads is run by the driver (harness/tsan_main.cpp).
#include "../core.h"
#include "fixture.h"
#include "../vsched.h"
#include "conc_bodies.h"
#include "scenario.h"
#include "parse_sets.h"

extern "C" {
extern char __start_uri_wdata[] __attribute__((weak)), __stop_uri_wdata[] __attribute__((weak));
extern char __start_uri_wbss[] __attribute__((weak)), __stop_uri_wbss[] __attribute__((weak));
extern char __start_uri_wdrl[] __attribute__((weak)), __stop_uri_wdrl[] __attribute__((weak));
extern char __start_uri_wdr[] __attribute__((weak)), __stop_uri_wdr[] __attribute__((weak));
}
static Sched *g_sched = 0;
static volatile uint64_t g_tpc_hits = 0;
extern "C" void __sanitizer_cov_trace_pc(void) { g_tpc_hits++; if (g_sched) g_sched->point(); }

namespace {
struct Local { uint64_t sweep_calls = 0, schedules = 0, points = 0, max_points = 0, groups = 0, max_preempt = 0, data_bytes = 0; std::set<Str> outcomes; };

struct DataRegions {
    std::vector<std::pair<char *, size_t> > regs; std::vector<Str> snap; size_t total;
    DataRegions() : total(0) {
        char *se[][2] = { { __start_uri_wdata, __stop_uri_wdata }, { __start_uri_wbss, __stop_uri_wbss }, { __start_uri_wdrl, __stop_uri_wdrl }, { __start_uri_wdr, __stop_uri_wdr } };
        for (auto &r : se) if (r[0] && r[1] > r[0]) { regs.push_back(std::make_pair(r[0], (size_t)(r[1] - r[0]))); total += (size_t)(r[1] - r[0]); }
        take();
    }
    void take() { snap.clear(); for (auto &r : regs) snap.push_back(Str(r.first, r.second)); }
    // puts the image taken at construction (process start, before the first library call) back: every execution, every solo run and
    // every sweep call starts from the same static state, so what it reports does not depend on what ran before and replays alone
    void restore() { for (size_t i = 0; i < regs.size(); i++) memcpy(regs[i].first, snap[i].data(), regs[i].second); }
    long changed() const { for (size_t i = 0; i < regs.size(); i++) for (size_t k = 0; k < regs[i].second; k++) if (regs[i].first[k] != snap[i][k]) return (long)k; return -1; }
};

static DataRegions g_pristine;      // constructed before main(): the image of the library's writable data before its first call

// The ledger is shared by all threads; in the allocator-level mode each of its entries is a scheduling point.
struct SharedMM { Ledger led; UriMemoryManager mm; bool points;
    SharedMM() : points(false) { mm = led.mm; mm.userData = this; mm.malloc = m; mm.calloc = c; mm.realloc = r; mm.reallocarray = ra; mm.free = f; }
    static void pt(UriMemoryManager *x) { SharedMM *s = (SharedMM *)x->userData; if (s->points && g_sched) g_sched->point(); }
    static void *m(UriMemoryManager *x, size_t n) { pt(x); return Ledger::s_malloc(&((SharedMM *)x->userData)->led.mm, n); }
    static void *c(UriMemoryManager *x, size_t a, size_t b) { pt(x); return Ledger::s_calloc(&((SharedMM *)x->userData)->led.mm, a, b); }
    static void *r(UriMemoryManager *x, void *p, size_t n) { pt(x); return Ledger::s_realloc(&((SharedMM *)x->userData)->led.mm, p, n); }
    static void *ra(UriMemoryManager *x, void *p, size_t a, size_t b) { pt(x); return Ledger::s_reallocarray(&((SharedMM *)x->userData)->led.mm, p, a, b); }
    static void f(UriMemoryManager *x, void *p) { pt(x); Ledger::s_free(&((SharedMM *)x->userData)->led.mm, p); }
};

struct Explorer {
    Ctx &ctx; Local &lc; Sched sched; SharedMM smm; ConcWorld world; DataRegions &data; bool block_level;
    std::vector<int> group; std::vector<std::vector<Str> > solo; int bound; Str group_enc; uint64_t budget;
    Explorer(Ctx &c, Local &l, bool blk) : ctx(c), lc(l), world(&smm.mm), data(g_pristine), block_level(blk), bound(0), budget(0) { lc.data_bytes = data.total; }
    Str enc(const std::vector<uint8_t> &choices) const { Str e = group_enc + "`" + (block_level ? "b" : "a") + "`"; bool first = true; for (size_t i = 0; i < choices.size(); i++) if (choices[i]) { e += fmt("%s%zu:%d", first ? "" : ",", i, choices[i]); first = false; } return e; }   // sparse: position:choice for the non-default choices
    // one execution under a choice prefix; results[i] = what thread i observed
    bool execute(const std::vector<uint8_t> &prefix, std::vector<Str> &results, Str &what) {
        results.assign(group.size(), Str()); smm.led.reset(); int sig; data.restore();
        if ((sig = GUARD_ENTER()) != 0) { g_sched = 0; sched.active = false; what = fmt("%s under this schedule (crash, or write to a shared read-only input)", signame(sig)); return false; }
        smm.points = !block_level; g_sched = &sched;
        sched.run((int)group.size(), prefix, [&](int id) { results[id] = world.run_body(group[id], id); });
        g_sched = 0; smm.points = false; GUARD_LEAVE();
        lc.schedules++; ctx.progress++; lc.points += sched.trace.size(); if (sched.trace.size() > lc.max_points) lc.max_points = sched.trace.size();
        if (sched.diverged) { what = "replay diverged from the recorded prefix (non-determinism in the harness)"; return false; }
        for (size_t i = 0; i < group.size(); i++) if (results[i] != solo[group[i]][i]) { const Str &a = results[i], &b = solo[group[i]][i]; size_t k = 0; while (k < a.size() && k < b.size() && a[k] == b[k]) k++; size_t from = k > 60 ? k - 60 : 0; what = fmt("thread %zu (%s) observed '...%s' but alone it observes '...%s'", i, CONC_BODY_NAMES[group[i]], a.substr(from, 160).c_str(), b.substr(from, 160).c_str()); return false; }
        if (!smm.led.live.empty() || !smm.led.errors.empty()) { what = smm.led.errors.empty() ? fmt("%zu blocks outstanding after all threads finished", smm.led.live.size()) : smm.led.errors[0]; return false; }
        long ch = data.changed(); if (ch >= 0) { what = fmt("a byte of the library's writable data changed (offset %ld of %zu bytes): the library keeps mutable global/static state", ch, data.total); data.restore(); return false; }
        return true;
    }
    void explore(const std::vector<uint8_t> &prefix) {
        if (ctx.expired() || (budget && lc.schedules >= budget)) return;
        std::vector<Str> res; Str what;
        if (!execute(prefix, res, what)) { ctx.violation("", enc(prefix), what); return; }
        std::vector<SchedPoint> tr = sched.trace;
        if (lc.outcomes.size() < 1000) { Str o; for (auto &r : res) o += r.substr(0, 40) + "|"; lc.outcomes.insert(o); }
        int cost = 0; for (size_t i = 0; i < prefix.size() && i < tr.size(); i++) if (tr[i].running_enabled && tr[i].chosen != 0) cost++;
        for (size_t i = prefix.size(); i < tr.size(); i++) {
            int c = cost + (tr[i].running_enabled ? 1 : 0);
            if (c <= bound) for (int alt = 1; alt < tr[i].n_enabled; alt++) {
                std::vector<uint8_t> p2; p2.reserve(i + 1); for (size_t k = 0; k < i; k++) p2.push_back(tr[k].chosen); p2.push_back((uint8_t)alt);
                if ((uint64_t)c > lc.max_preempt) lc.max_preempt = c;
                explore(p2);
            }
            if (tr[i].running_enabled && tr[i].chosen != 0) cost++;
        }
    }
    void run_group(const std::vector<int> &g, int b) {
        group = g; bound = b; lc.groups++; group_enc.clear(); for (size_t i = 0; i < g.size(); i++) group_enc += fmt("%s%d", i ? "," : "", g[i]);
        explore(std::vector<uint8_t>());
    }
    void solo_runs() {
        solo.assign(CONC_NBODIES, std::vector<Str>());
        for (int b = 0; b < CONC_NBODIES; b++) for (int slot = 0; slot < Sched::MAXT; slot++) {
            smm.led.reset(); int sig; data.restore();
            if ((sig = GUARD_ENTER()) != 0) { ctx.violation("", fmt("%d`%s`", b, block_level ? "b" : "a"), fmt("%s in thread body '%s' run alone (crash, or write to a shared read-only input)", signame(sig), CONC_BODY_NAMES[b])); solo[b].push_back("crashed"); continue; }
            solo[b].push_back(world.run_body(b, slot)); GUARD_LEAVE();
            long ch = data.changed(); if (ch >= 0) { ctx.violation("", fmt("%d`%s`", b, block_level ? "b" : "a"), fmt("a byte of the library's writable data changed while '%s' ran alone: the library keeps mutable global/static state", CONC_BODY_NAMES[b])); data.restore(); }
        }
        smm.led.reset(); data.restore();
    }
    // static-state sweep: every call of the scenario universe and a parse corpus, comparing the library's writable data after each
    void static_sweep() {
        Mem mem(1); ArenaMM ro(64); std::vector<ScnSpec> specs = scenario_specs(ctx.quick() ? 1 : 2); uint64_t n = 0;
        for (size_t i = 0; i < specs.size(); i++) {
            if (!ctx.mine(i)) continue; if (ctx.expired()) break; int sig; data.restore();
            if ((sig = GUARD_ENTER()) != 0) { ctx.violation("", "sweep`" + specs[i].enc(), fmt("%s during the static-state sweep in %s", signame(sig), specs[i].show().c_str())); continue; }
            { Scenario<char> sc(specs[i], &mem, &ro); if (sc.setup()) { int rc = sc.call(); sc.cleanup(rc); } }
            { Scenario<wchar_t> sc(specs[i], &mem, &ro); if (sc.setup()) { int rc = sc.call(); sc.cleanup(rc); } }
            GUARD_LEAVE(); n++; ctx.progress++;
            long ch = data.changed(); if (ch >= 0) { ctx.violation("", "sweep`" + specs[i].enc(), fmt("a byte of the library's writable data changed (offset %ld of %zu bytes) during %s: the library keeps mutable global/static state", ch, data.total, specs[i].show().c_str())); data.restore(); }
        }
        // the remaining entry points that take no URI: completing and testing a manager must not leave anything behind in the library either
        if (ctx.worker == 0) { data.restore(); Ledger be; UriMemoryManager backend = be.mm, done; backend.calloc = 0; backend.realloc = 0; backend.reallocarray = 0;
            int r1 = uriCompleteMemoryManager(&done, &backend); int r2 = r1 == URI_SUCCESS ? uriTestMemoryManager(&done) : -1; (void)r2; n++;
            long ch = data.changed(); if (ch >= 0) { ctx.violation("", "sweepmm`-`-", fmt("a byte of the library's writable data changed (offset %ld of %zu bytes) in uriCompleteMemoryManager / uriTestMemoryManager: the library keeps mutable global/static state", ch, data.total)); data.restore(); } }
        auto parse_one = [&](const Str &t) { UriUriA u; UriUriW w; const char *e; const wchar_t *we; std::wstring wt = widen<wchar_t>(t); uriParseSingleUriExA(&u, t.data(), t.data() + t.size(), &e); uriFreeUriMembersA(&u); uriParseSingleUriExW(&w, wt.data(), wt.data() + wt.size(), &we); uriFreeUriMembersW(&w); n++;
            long ch = data.changed(); if (ch >= 0) { ctx.violation("", "sweep`0`" + t + "``0`0", "a byte of the library's writable data changed while parsing '" + esc(t) + "': the library keeps mutable global/static state"); data.restore(); } };
        brute_force_classes(ctx, 4, [&](const char *p, int len, int) { parse_one(Str(p, len)); });
        octet_product(ctx, [&](const Str &t) { parse_one(t); });
        ip6_product(ctx, 4, 3, [&](const Str &t) { parse_one(t); });
        lc.sweep_calls += n;
    }
};

void run(Ctx &ctx) {
    Local lc;
    // is this the trace-pc flavour? (the callback fires inside library code)
    { UriUriA u; const char *e; uint64_t h0 = g_tpc_hits; uriParseSingleUriA(&u, "a", &e); uriFreeUriMembersA(&u); bool blk = g_tpc_hits != h0;
      Explorer ex(ctx, lc, blk); ex.solo_runs();
      if (!blk) ex.static_sweep();
      int bound = ctx.quick() ? (blk ? 1 : 2) : (blk ? 2 : 3);
      uint64_t idx = 0;
      for (int a = 0; a < CONC_NBODIES; a++) for (int b = 0; b < CONC_NBODIES; b++) { if (!ctx.mine(idx++)) continue; if (ctx.expired()) break; ex.run_group({ a, b }, bound); }
      // three threads (allocator level only; at block level a few representative triples with bound 1)
      for (int a = 0; a < CONC_NBODIES; a++) for (int b = a; b < CONC_NBODIES; b++) for (int c = b; c < CONC_NBODIES; c++) {
          if (!ctx.mine(idx++)) continue; if (ctx.expired()) break;
          if (blk) { if ((a + b + c) % 7 == 0) ex.run_group({ a, b, c }, 1); } else ex.run_group({ a, b, c }, ctx.quick() ? 1 : 2);
      }
      ctx.st.count(blk ? "mode_block_level" : "mode_allocator_level", ctx.worker == 0 ? 1 : 0);
    }
    ctx.st.count("evaluations", lc.schedules); ctx.st.count("schedules", lc.schedules); ctx.st.count("scheduling_points_total", lc.points); ctx.st.count("thread_groups", lc.groups); ctx.st.count("static_sweep_calls", lc.sweep_calls);
    ctx.st.distinct("max_points", fmt("%llu", (unsigned long long)lc.max_points)); ctx.st.distinct("max_preempt", fmt("%llu", (unsigned long long)lc.max_preempt));
    for (auto &o : lc.outcomes) ctx.st.distinct("outcomes", o);
    if (ctx.worker == 0) { ctx.st.count("library_writable_data_bytes", lc.data_bytes); ctx.st.sample("threads {resolve(shared ref, shared base), toString(shared IPv4 URI)} schedule 0,0,1,0,0,1 (two preemptions)"); ctx.st.sample("threads {normalize(own), dissect(shared query), parse(own)}"); }
}
void replay(Ctx &ctx, const Str &enc) {
    std::vector<Str> p = split(enc, '`'); Local lc;
    if (!p.empty() && p[0] == "sweepmm") { DataRegions &data = g_pristine; data.restore(); Ledger be; UriMemoryManager backend = be.mm, done; backend.calloc = 0; backend.realloc = 0; backend.reallocarray = 0;
        if (uriCompleteMemoryManager(&done, &backend) == URI_SUCCESS) uriTestMemoryManager(&done);
        if (data.changed() >= 0) ctx.violation("", enc, "a byte of the library's writable data changed in uriCompleteMemoryManager / uriTestMemoryManager: the library keeps mutable global/static state"); return; }
    if (p.size() >= 6 && p[0] == "sweep") {       // re-run the sweep call alone and compare the data sections
        ScnSpec sp; if (!ScnSpec::dec(p, 1, sp)) return; DataRegions &data = g_pristine; Mem mem(1); ArenaMM ro(64); int sig;
        if ((sig = GUARD_ENTER()) != 0) { ctx.violation("", enc, fmt("%s during the static-state sweep", signame(sig))); return; }
        { Scenario<char> sc(sp, &mem, &ro); if (sc.setup()) { int rc = sc.call(); sc.cleanup(rc); } } { Scenario<wchar_t> sc(sp, &mem, &ro); if (sc.setup()) { int rc = sc.call(); sc.cleanup(rc); } }
        GUARD_LEAVE(); if (data.changed() >= 0) ctx.violation("", enc, "a byte of the library's writable data changed: the library keeps mutable global/static state");
        return;
    }
    if (p.size() != 3) return; std::vector<int> g; for (auto &t : split(p[0], ',')) if (!t.empty()) g.push_back(atoi(t.c_str()));
    std::vector<uint8_t> pre; for (auto &t : split(p[2], ',')) if (!t.empty()) { size_t at = 0; int ch = 0; if (sscanf(t.c_str(), "%zu:%d", &at, &ch) == 2) { if (pre.size() <= at) pre.resize(at + 1, 0); pre[at] = (uint8_t)ch; } }
    UriUriA u; const char *e; uint64_t h0 = g_tpc_hits; uriParseSingleUriA(&u, "a", &e); uriFreeUriMembersA(&u); bool blk = g_tpc_hits != h0;
    if (blk != (p[1] == "b")) return;          // a block-level schedule only replays in the trace-pc flavour
    Explorer ex(ctx, lc, blk); ex.solo_runs(); ex.group = g; ex.group_enc = p[0]; std::vector<Str> res; Str what;
    if (!ex.execute(pre, res, what)) ctx.violation("", enc, what);
}
Str coverage(const Ctx &, const Stats &st) {
    auto mx = [&](const char *k) { uint64_t m = 0; auto it = st.sets.find(k); if (it != st.sets.end()) for (auto &s : it->second) m = std::max<uint64_t>(m, strtoull(s.c_str(), 0, 10)); return m; };
    return jkv("states", st.get("scheduling_points_total")) + ", " + jkv("transitions", st.get("scheduling_points_total")) + ", " + jkv("traces_validated_against_impl", st.get("schedules")) + ", " + jkv("evaluations", st.get("evaluations")) + ", " +
           jkv("distinct_nontrivial", st.get("schedules")) + ", " + jkv("schedules", st.get("schedules")) + ", " + jkv("thread_groups", st.get("thread_groups")) + ", " + jkv("max_scheduling_points_in_one_execution", mx("max_points")) + ", " + jkv("preemption_bound_reached", mx("max_preempt")) + ", " +
           jkv("distinct_outcomes", st.nset("outcomes")) + ", " + jkv("library_writable_data_bytes", st.get("library_writable_data_bytes")) + ", " + jkv("static_state_sweep_calls", st.get("static_sweep_calls")) + ", " + jkvs("scheduling_point_level", st.get("mode_block_level") ? "every basic-block edge of the library (gcc -fsanitize-coverage=trace-pc)" : "every allocator call") + ", " +
           jkvs("rule", "stateless exploration of the real library under a serialising scheduler (threads are user-level contexts; control changes hands only at scheduling points; a schedule is its list of choices and is replayed exactly): for every ordered pair of the ten bodies {parse own text, resolve shared->own, shorten shared->own, mask query shared, toString shared->own buffer, equals shared, dissect shared text->own list, compose shared list->own buffer, normalize own copy, makeOwner own} and for triples, ALL schedules with at most `bound` preemptions are executed (iteratively from the default schedule); each thread's observation must equal what the same body observes alone, the shared ledger must balance, the library's writable data sections (linker-bracketed, compared byte for byte) must not change, shared inputs live in PROT_READ memory. A static-state sweep additionally runs every call of the C13/C14 scenario universe (both character types) and a parse corpus once, comparing those sections after each call. states/transitions here count scheduling points executed; every schedule is a distinct choice list, so distinct_nontrivial = schedules. distinct_outcomes must be small (one per group): interleavings do not change results.") + ", " + jsamples(st);
}
Check chk = { "C20", "model_checking", run, replay, coverage, "sequentially consistent interleavings at the stated scheduling points only; hardware memory-model effects and sub-basic-block interleavings are left to the free-running ThreadSanitizer pass|bounds: 2-3 threads, preemption bound 2/3 at allocator level, 1/2 at basic-block level" };
REGISTER_CHECK(chk);
}
