// C10 - reference creation (uriRemoveBaseUri) is the inverse of reference resolution.
#include "../core.h"
#include "fixture.h"
#include "resolve_sets.h"

namespace {
struct Local { uint64_t pairs = 0, calls = 0, witness_searches = 0, omitted_scheme = 0, omitted_auth = 0, kept_scheme_no_witness = 0, diff_scheme = 0, errs = 0; std::set<Str> produced; };

static Str norm_path(const ref::RUri &u) {
    if (u.has_authority) { Str p = ref::remove_dot_segments(u.path); return p.empty() ? Str("/") : p; }
    if (!u.path.empty() && u.path[0] == '/') return ref::remove_dot_segments(u.path);
    if (u.path.empty()) return u.path;
    // rootless: dot segments are removed without making the path absolute (C06, C09); a list left with an empty first segment keeps a
    // leading "." so that its text cannot be mistaken for an absolute path ('.//a' is not '/a')
    std::vector<Str> L = ref::remove_dots_list(ref::split_path(u.path), false);
    Str t = ref::join_path(L);
    return (L.size() > 1 && L[0].empty()) ? "./" + t : t;
}
static bool same_authority(const ref::RUri &a, const ref::RUri &b) {
    if (a.has_authority != b.has_authority) return false;
    if (!a.has_authority) return true;
    if (a.userinfo != b.userinfo || a.port != b.port || a.hostkind != b.hostkind) return false;
    if (a.hostkind == ref::HK_IP4) return memcmp(a.ip, b.ip, 4) == 0;
    if (a.hostkind == ref::HK_IP6) return memcmp(a.ip, b.ip, 16) == 0;
    return a.host.text == b.host.text;
}
// t ~ s : the statement's comparison
static bool equivalent(const ref::RUri &t, const ref::RUri &s) {
    return t.scheme == s.scheme && same_authority(t, s) && t.query == s.query && t.fragment == s.fragment && norm_path(t) == norm_path(s);
}
static bool resolves_to(const ref::RUri &base, const Str &ref_text, const ref::RUri &s) {
    ref::RUri r; if (!ref::decompose(ref_text, r)) return false;
    ref::Expected e; if (!ref::resolve_expected(base, r, true, e)) return false;
    return equivalent(e.t, s);
}
// is there a reference without scheme (and, if no_auth, without authority) that resolves against base to s ?
static bool witness(const ref::RUri &base, const ref::RUri &s, bool no_auth, Str *found) {
    Str tail = (s.query.present ? "?" + s.query.text : Str()) + (s.fragment.present ? "#" + s.fragment.text : Str());
    std::vector<Str> cands;
    if (!no_auth && s.has_authority) { ref::RUri c = s; c.scheme = ref::Comp(); cands.push_back(ref::recompose(c)); }
    if (!s.has_authority || no_auth) {
        std::vector<Str> paths; paths.push_back(""); paths.push_back("."); paths.push_back("./");
        if (!s.path.empty() && s.path[0] == '/') { paths.push_back(s.path); paths.push_back("/." + s.path); }
        std::vector<Str> segs = s.path.empty() ? std::vector<Str>() : ref::split_path(s.path[0] == '/' ? s.path.substr(1) : s.path);
        size_t nb = ref::split_path(base.path).size() + 1;
        for (size_t k = 0; k <= segs.size(); k++) {
            Str suffix; for (size_t i = k; i < segs.size(); i++) { if (i > k) suffix += "/"; suffix += segs[i]; }
            for (size_t j = 0; j <= nb; j++) {
                Str up; for (size_t i = 0; i < j; i++) up += "../";
                paths.push_back(up + suffix); if (j == 0) paths.push_back("./" + suffix);
                if (suffix.empty() && j > 0) paths.push_back(up.substr(0, up.size() - 1));
            }
        }
        for (auto &p : paths) cands.push_back(p + tail);
    }
    for (auto &c : cands) if (resolves_to(base, c, s)) { if (found) *found = c; return true; }
    return false;
}

template <class C> struct Runner {
    typedef Api<C> A; typedef typename A::Uri Uri;
    ArenaMM base_mem, src_mem; Ledger led; Ctx *ctx; Local *lc; std::vector<RoUri<C> > bases;
    Runner(Ctx *c, Local *l) : base_mem(2048), src_mem(16), ctx(c), lc(l) {}
    void setup(const std::vector<Str> &bt) { for (auto &t : bt) { RoUri<C> b = make_ro<C>(base_mem, t); if (b.ok) bases.push_back(b); else ctx->harness_error("base does not parse: " + t); } base_mem.arena.protect(); }
    static Str enc(const Str &s, const Str &b, int mode, int mgr) { return s + "`" + b + "`" + fmt("%d`%d`%s", mode, mgr, A::name()); }

    void one(const RoUri<C> &S, const RoUri<C> &B, int mode, int mgr, bool have_w1, bool w1, bool have_w2, bool w2) {
        lc->calls++;
        Uri d; memset(&d, 0xEE, sizeof d); led.clear_injection();
        int rc = mgr ? A::RemoveBaseUriMm(&d, S.u, B.u, mode, &led.mm) : A::RemoveBaseUri(&d, S.u, B.u, mode);
        Str what, finding;
        bool s_abs = S.r.scheme.present, b_abs = B.r.scheme.present;
        if (!s_abs || !b_abs) {
            lc->errs++;
            bool ok = (!b_abs && rc == URI_ERROR_REMOVEBASE_REL_BASE) || (!s_abs && rc == URI_ERROR_REMOVEBASE_REL_SOURCE);
            if (!ok) what = fmt("rc=%d for a %s without scheme", rc, !b_abs ? "base" : "source");
        } else if (rc != URI_SUCCESS) what = fmt("rc=%d for two absolute URIs", rc);
        else {
            UriObs o = observe<C>(d); int trc = 0; Str rt = to_text<C>(d, &trc); ref::RUri rr;
            if (trc != URI_SUCCESS || !ref::decompose(rt, rr)) what = "produced reference '" + rt + "' is not a URI reference";
            else if ((o.scheme.kind != 0) != rr.scheme.present || o.has_host() != rr.has_authority || o.path_text() != rr.path) what = "produced reference '" + rt + "' reads back differently from the object (scheme/authority/path shifted)";
            else {
                if (lc->produced.size() < 20000) lc->produced.insert(rt);
                ref::Expected e; ref::resolve_expected(B.r, rr, true, e);
                bool same_scheme = S.r.scheme.text == B.r.scheme.text;
                if (!equivalent(e.t, S.r)) what = "reference '" + rt + "' resolves to '" + ref::recompose(e.t) + "', not to the source";
                else if (!same_scheme) {
                    lc->diff_scheme++;
                    UriObs so = observe<C>(*S.u);
                    if (o.content_key() != so.content_key()) what = "schemes differ but the result '" + rt + "' is not the source unchanged";
                } else {
                    bool rootless_src = !S.r.has_authority && !(S.r.path.size() && S.r.path[0] == '/');
                    if (mode && rootless_src) { /* an absolute path cannot lead back to a rootless one: the statement's clauses collide, keeping the scheme is accepted */ }
                    else if (have_w1 && w1) { if (rr.scheme.present) what = "a scheme-less reference can resolve to the source but the produced reference '" + rt + "' keeps the scheme"; else lc->omitted_scheme++; }
                    else if (have_w1 && !rr.scheme.present) lc->omitted_scheme++;
                    if (have_w1 && !w1 && rr.scheme.present) lc->kept_scheme_no_witness++;
                    if (what.empty() && have_w2 && w2 && !(mode && rootless_src)) { if (rr.scheme.present || rr.has_authority) what = "source and base share the whole authority and a path-only reference can resolve to the source, but '" + rt + "' keeps scheme or authority"; else lc->omitted_auth++; }
                    if (what.empty() && mode && !rr.scheme.present && !rr.has_authority && !(rr.path.size() && rr.path[0] == '/')) what = "domain-root mode but the produced path '" + rr.path + "' is not absolute";
                }
                if (what.empty() && (!o.tail_ok || (o.has_host() && o.abs))) what = "produced object is malformed (tail / absolutePath with host)";
            }
        }
        if (mgr) { A::FreeUriMembersMm(&d, &led.mm); if (what.empty() && (!led.live.empty() || !led.errors.empty())) what = led.errors.empty() ? fmt("%zu blocks outstanding", led.live.size()) : led.errors[0]; if (!led.live.empty() || !led.errors.empty()) led.reset(); }
        else A::FreeUriMembers(&d);
        if (!what.empty()) ctx->violation(finding, enc(S.text, B.text, mode, mgr), what);
    }
    void run_src(const Str &st, int only_base = -1, int only_mode = -1, int only_mgr = -1) {
        src_mem.arena.reset(); RoUri<C> S = make_ro<C>(src_mem, st); if (!S.ok) { ctx->harness_error("source does not parse: " + st); return; }
        src_mem.arena.protect();
        // the very same object as source and as base (a caller asking "relative to itself"): same answer as for two equal objects
        if ((only_base == -1 || only_base == -2) && S.r.scheme.present) {
            RoUri<C> Same = S; Same.text = "\x01same"; lc->pairs++; bool w1 = witness(S.r, S.r, false, 0), w2 = witness(S.r, S.r, true, 0);
            for (int mode = 0; mode < 2; mode++) for (int mgr = 0; mgr < 2; mgr++) {
                if ((only_mode >= 0 && mode != only_mode) || (only_mgr >= 0 && mgr != only_mgr)) continue; int sig;
                if ((sig = GUARD_ENTER()) == 0) { one(S, Same, mode, mgr, true, w1, true, w2); GUARD_LEAVE(); }
                else { ctx->violation("", enc(st, Same.text, mode, mgr), fmt("%s during reference creation with one object as source and base", signame(sig))); led.reset(); }
            }
        }
        if (only_base == -2) return;
        for (size_t bi = 0; bi < bases.size(); bi++) {
            if (only_base >= 0 && (int)bi != only_base) continue;
            const RoUri<C> &B = bases[bi]; lc->pairs++; ctx->progress++;
            bool have = S.r.scheme.present && B.r.scheme.present && S.r.scheme.text == B.r.scheme.text, w1 = false, w2 = false, have2 = false;
            if (have) { lc->witness_searches++; w1 = witness(B.r, S.r, false, 0); have2 = same_authority(S.r, B.r); if (have2) w2 = witness(B.r, S.r, true, 0); }
            for (int mode = 0; mode < 2; mode++) for (int mgr = 0; mgr < 2; mgr++) {
                if ((only_mode >= 0 && mode != only_mode) || (only_mgr >= 0 && mgr != only_mgr)) continue;
                int sig; SanWatch sw;
                if ((sig = GUARD_ENTER()) == 0) { one(S, B, mode, mgr, have, w1, have2, w2); GUARD_LEAVE(); if (sw.tripped()) ctx->violation("", enc(st, B.text, mode, mgr), "AddressSanitizer reported an invalid access"); }
                else { ctx->violation("", enc(st, B.text, mode, mgr), fmt("%s during reference creation (crash or write to a read-only argument)", signame(sig))); led.reset(); }
            }
        }
    }
};

static void sets(int n, std::vector<Str> &srcs, std::vector<Str> &bases) {
    std::vector<const char *> auth = { 0, "//h", "//g", "//u@h", "//h:1", "//u@h:1", "//", "//1.2.3.4", "//[::1]", "//[v1.a]" };
    std::vector<Str> tokens = { "", "a", "b", "c:d", "1:e", ".", ".." };
    std::vector<Str> rl = path_token_paths(tokens, n, 0), ab = path_token_paths(tokens, n, 1);
    std::set<Str> seen_s, seen_b;
    for (auto a : auth) {
        std::vector<Str> paths = ab; if (!a) paths.insert(paths.end(), rl.begin(), rl.end()); else paths.push_back("");
        for (auto &p : paths) {
            if (!a && p.compare(0, 2, "//") == 0) continue;
            Str body = Str(a ? a : "") + p; if (!ref::is_uri_reference("s:" + body)) continue;
            for (auto q : { "", "?q", "?r" }) {
                if (seen_b.insert("s:" + body + q).second) bases.push_back("s:" + body + q);
                for (auto f : { "", "#f" }) for (auto sc : { "s:", "t:" }) { Str s = Str(sc) + body + q + f; if (seen_s.insert(s).second) srcs.push_back(s); }
            }
        }
    }
    // authorities that differ from the ones above only in the last address byte / in the low half of an IPv6 address (shorter paths)
    { std::vector<Str> p2 = path_token_paths(tokens, n > 1 ? n - 1 : n, 1); p2.push_back("");
      for (auto a : { "//1.2.3.5", "//[::2]", "//[1::1]", "//[v1.b]", "//H", "//v1.a", "//v1.b", "//u@v1.a", "//u@1.2.3.4", "//1.2.3.4:1", "//[::1]:1", "//u@[::1]", "//u@[v1.a]:1" /* IP literals with user info / port; and v1.a: a registered name spelled like the IPvFuture literal [v1.a] */ }) for (auto &p : p2) for (auto q : { "", "?q" }) {
          Str body = Str(a) + p + q; if (!ref::is_uri_reference("s:" + body)) continue;
          if (seen_b.insert("s:" + body).second) bases.push_back("s:" + body); if (seen_s.insert("s:" + body).second) srcs.push_back("s:" + body); } }
    // segments whose inside matters to the guards of reference creation: a colon behind a character that cannot be part of a scheme,
    // and segments of equal length that differ only in their last character (sources only; every base above is paired with them)
    for (auto seg : { "x_y:z", "%3A:b", "k=v:w", "a@b:c", "item-17", "item-18", "2023", "2024" }) for (auto pre : { "s://h/", "s://h/a/", "s://h/item-17/", "s:/a/", "s:/", "s:a/", "s:" }) {
        Str s1 = Str(pre) + seg; if (!ref::is_uri_reference(s1)) continue; if (seen_s.insert(s1).second) srcs.push_back(s1); Str s2 = s1 + "/x?q"; if (seen_s.insert(s2).second) srcs.push_back(s2);
        if (seen_b.insert(s1).second) bases.push_back(s1); }
    // a dot segment as the LAST directory of the base (and nowhere before it), and sources that share the directories in front of it
    for (auto bp : { "/a/./c", "/a/b/../c", "/a/b/./", "/a/../", "/./c", "/a/b/c/../d" }) for (auto pre : { "s://h", "s:", "s://1.2.3.4", "s://[::1]", "s://[v1.a]", "s://v1.a", "s://u@[::1]:1" }) { Str t = Str(pre) + bp; if (seen_b.insert(t).second) bases.push_back(t); if (seen_s.insert(t).second) srcs.push_back(t); }
    for (auto sp : { "/a/x", "/a/b/x", "/a/b/c/x", "/x" }) for (auto pre : { "s://h", "s:", "s://1.2.3.4", "s://[::1]", "s://[v1.a]", "s://v1.a", "s://u@[::1]:1" }) { Str t = Str(pre) + sp; if (seen_s.insert(t).second) srcs.push_back(t); }
    // schemes that differ in case only, that extend one another, or that hold every kind of scheme character: "share the scheme" means the same text
    for (auto sc : { "S", "sx", "s+", "s1", "s.", "http", "HTTP", "Http", "httP" }) for (auto body : { "://h/a/b", ":/a/b", ":a/b", "://h/a/c?q", ":" }) {
        Str t = Str(sc) + body; if (!ref::is_uri_reference(t)) continue; if (seen_s.insert(t).second) srcs.push_back(t); if (seen_b.insert(t).second) bases.push_back(t); }
    for (auto s : { "a", "/a", "//h/a", "" }) { srcs.push_back(s); bases.push_back(s); }
}

void run(Ctx &ctx) {
    Local lc; int n = (ctx.secondary ? 1 : ctx.quick() ? 2 : 3) + ctx.bonus;
    std::vector<Str> srcs, bases; sets(n, srcs, bases);
    Runner<char> ra(&ctx, &lc); Runner<wchar_t> rw(&ctx, &lc); ra.setup(bases); if (n <= 2) rw.setup(bases);
    for (size_t i = 0; i < srcs.size(); i++) { if (!ctx.mine(i)) continue; if (ctx.expired()) break; ra.run_src(srcs[i]); if (n <= 2) rw.run_src(srcs[i]); }
    ctx.st.count("evaluations", lc.calls); ctx.st.count("pairs", lc.pairs); ctx.st.count("witness_searches", lc.witness_searches); ctx.st.count("scheme_omitted", lc.omitted_scheme); ctx.st.count("authority_omitted", lc.omitted_auth);
    ctx.st.count("scheme_kept_because_no_witness", lc.kept_scheme_no_witness); ctx.st.count("different_scheme_cases", lc.diff_scheme); ctx.st.count("error_code_cases", lc.errs);
    for (auto &s : lc.produced) ctx.st.distinct("produced", s);
    if (ctx.worker == 0) { ctx.st.count("sources", srcs.size()); ctx.st.count("bases", bases.size()); ctx.st.count("param_n", n); ctx.st.sample("S=s://h/a/ B=s://h/a mode=0"); ctx.st.sample("S=s://u@h/a B=s://h/b mode=0"); ctx.st.sample("S=s:/a B=s:b mode=1"); }
}
void replay(Ctx &ctx, const Str &enc) {
    std::vector<Str> p = split(enc, '`'); if (p.size() != 5) return; Local lc; std::vector<Str> b; b.push_back(p[1]);
    if (p[1] == "\x01same") { b[0] = "s:"; if (p[4] == "A") { Runner<char> r(&ctx, &lc); r.setup(b); r.run_src(p[0], -2, atoi(p[2].c_str()), atoi(p[3].c_str())); } else { Runner<wchar_t> r(&ctx, &lc); r.setup(b); r.run_src(p[0], -2, atoi(p[2].c_str()), atoi(p[3].c_str())); } return; }
    if (p[4] == "A") { Runner<char> r(&ctx, &lc); r.setup(b); r.run_src(p[0], 0, atoi(p[2].c_str()), atoi(p[3].c_str())); }
    else { Runner<wchar_t> r(&ctx, &lc); r.setup(b); r.run_src(p[0], 0, atoi(p[2].c_str()), atoi(p[3].c_str())); }
}
Str coverage(const Ctx &, const Stats &st) {
    return jkv("evaluations", st.get("evaluations")) + ", " + jkv("distinct_nontrivial", st.nset("produced")) + ", " +
           jkvs("rule", "cases = (source S, base B, mode, manager, char type): S and B range over 2 schemes x 10 authorities (user info / port / IPv4 / IPv6 / IPvFuture / empty variants) x all path-token sequences up to length n over {'', a, b, c:d, '.', '..'} (rootless where legal, and absolute) x 3 queries (x 2 fragments for S), plus scheme-less S and B; the full product is executed. Oracle: the produced reference, read back from its text, is resolved against B by the reference resolver and must be equivalent to S (dot-segment-normalised path, '' == '/' under an authority); a bounded witness search over candidate references decides when scheme/authority must be omitted. distinct_nontrivial = distinct produced reference texts.") + ", " +
           jkv("sources", st.get("sources")) + ", " + jkv("bases", st.get("bases")) + ", " + jkv("path_tokens_max", st.get("param_n")) + ", " + jkv("pairs", st.get("pairs")) + ", " + jkv("witness_searches", st.get("witness_searches")) + ", " +
           jkv("scheme_omitted", st.get("scheme_omitted")) + ", " + jkv("authority_omitted", st.get("authority_omitted")) + ", " + jkv("scheme_kept_because_no_witness", st.get("scheme_kept_because_no_witness")) + ", " +
           jkv("different_scheme_cases", st.get("different_scheme_cases")) + ", " + jkv("error_code_cases", st.get("error_code_cases")) + ", " + jsamples(st);
}
Check chk = { "C10", "exploration", run, replay, coverage, "round trip judged by the reference resolver of C06 (harness/ref.cpp)|the omission clause is decided by a bounded witness search: '..' runs up to the base depth + 1, every suffix of the source's segment list, './' forms, the absolute path and the network-path form" };
REGISTER_CHECK(chk);
}
