// C06 - reference resolution follows RFC 3986 section 5.2 (component for component), with the statement's
// two refinements: rootless paths stay rootless, and a host-less path never starts with "//".
#include "../core.h"
#include "fixture.h"
#include "corpus.h"
#include "resolve_sets.h"

namespace {
struct Local { uint64_t pairs = 0, calls = 0, regime[4] = {0,0,0,0}, alt_used = 0, guard_dot = 0, rel_base = 0; std::set<Str> outcomes; };

template <class C> struct Runner {
    typedef Api<C> A; typedef typename A::Uri Uri;
    ArenaMM base_mem, ref_mem; Ledger led; Ctx *ctx; Local *lc;
    std::vector<RoUri<C> > bases;
    Runner(Ctx *c, Local *l, size_t ref_pages = 16) : base_mem(512), ref_mem(ref_pages), ctx(c), lc(l) {}
    void setup(const std::vector<Str> &base_texts) {
        for (auto &t : base_texts) { RoUri<C> b = make_ro<C>(base_mem, t); if (!b.ok) { ctx->harness_error("base does not parse: " + t); continue; } bases.push_back(b); }
        base_mem.arena.protect();
    }
    static Str enc(const Str &base, const Str &ref, int opt, int mgr) { return base + "`" + ref + "`" + fmt("%d`%d`%s", opt, mgr, A::name()); }
    void one(const RoUri<C> &b, const RoUri<C> &r, int opt, int mgr) {
        lc->calls++;
        Uri d; memset(&d, 0xEE, sizeof d); int rc;
        UriResolutionOptions o = opt ? URI_RESOLVE_IDENTICAL_SCHEME_COMPAT : URI_RESOLVE_STRICTLY;
        if (mgr) { led.clear_injection(); rc = A::AddBaseUriExMm(&d, r.u, b.u, o, &led.mm); }
        else if (opt == 0) rc = A::AddBaseUri(&d, r.u, b.u); else rc = A::AddBaseUriEx(&d, r.u, b.u, o);
        ref::Expected e; bool abs_base = ref::resolve_expected(b.r, r.r, opt == 0, e);
        Str what;
        if (!abs_base) { lc->rel_base++; if (rc != URI_ERROR_ADDBASE_REL_BASE) what = fmt("base without scheme: rc=%d, expected URI_ERROR_ADDBASE_REL_BASE", rc); }
        else if (rc != URI_SUCCESS) what = fmt("rc=%d for an absolute base", rc);
        else {
            lc->regime[e.regime]++;
            UriObs ob = observe<C>(d);
            const ref::RUri &t = e.t;
            ref::Comp sc; sc.present = ob.scheme.kind != 0; sc.text = ob.scheme.text;
            if (ob.scheme.kind == 3 || sc != t.scheme) what = "scheme " + ob.scheme.key() + " expected " + (t.scheme.present ? t.scheme.text : "-");
            else if (ob.has_host() != t.has_authority) what = fmt("authority %s, expected %s", ob.has_host() ? "present" : "absent", t.has_authority ? "present" : "absent");
            else if ((ob.userinfo.kind != 0) != t.userinfo.present || ob.userinfo.text != t.userinfo.text) what = "user info " + ob.userinfo.key();
            else if (t.has_authority && ob.host.text != t.host.text) what = "host " + ob.host.key();
            else if (ob.hostkind() != t.hostkind) what = fmt("host kind %d expected %d", ob.hostkind(), t.hostkind);
            else if (t.hostkind == ref::HK_IP4 && ob.ip != Str((const char *)t.ip, 4)) what = "IPv4 bytes";
            else if (t.hostkind == ref::HK_IP6 && ob.ip != Str((const char *)t.ip, 16)) what = "IPv6 bytes";
            else if ((ob.port.kind != 0) != t.port.present || ob.port.text != t.port.text) what = "port " + ob.port.key();
            else if ((ob.query.kind != 0) != t.query.present || ob.query.text != t.query.text) what = "query " + ob.query.key() + " expected " + (t.query.present ? "\"" + t.query.text + "\"" : "-");
            else if ((ob.fragment.kind != 0) != t.fragment.present || ob.fragment.text != t.fragment.text) what = "fragment " + ob.fragment.key();
            else {
                Str pt = ob.path_text();
                if (pt == e.path) { if (e.regime == 1 && e.path.compare(0, 4, "/.//") == 0 && !t.has_authority) lc->guard_dot++; }
                else if (e.has_alt && pt == e.alt_path) lc->alt_used++;
                else what = "path '" + pt + "' expected '" + e.path + "'" + (e.has_alt ? " (or '" + e.alt_path + "')" : "") + fmt(" [regime %d]", e.regime);
                if (what.empty()) {
                    ref::RUri tt = t; tt.path = pt; Str full = ref::recompose(tt); int trc = 0; Str got = to_text<C>(d, &trc);
                    if (trc != URI_SUCCESS || got != full) what = "recomposed text '" + got + "' expected '" + full + "'";
                    else if (!ob.tail_ok) what = "pathTail is not the last node";
                    else if (ob.has_host() && ob.abs) what = "absolutePath set although a host is present";
                    if (lc->outcomes.size() < 20000) lc->outcomes.insert(full);
                }
            }
        }
        if (mgr) {
            A::FreeUriMembersMm(&d, &led.mm);
            if (what.empty() && (!led.live.empty() || !led.errors.empty())) what = led.errors.empty() ? fmt("%zu blocks outstanding after freeing the result", led.live.size()) : led.errors[0];
            if (!led.live.empty() || !led.errors.empty()) led.reset();
        } else A::FreeUriMembers(&d);
        if (!what.empty()) {
            Str f;
            ctx->violation(f, enc(b.text, r.text, opt, mgr), what);
        }
    }
    void run_ref(const Str &ref_text, int only_base = -1, int only_opt = -1, int only_mgr = -1) {
        ref_mem.arena.reset(); RoUri<C> r = make_ro<C>(ref_mem, ref_text);
        if (!r.ok) { ctx->harness_error("reference does not parse: " + ref_text); return; }
        ref_mem.arena.protect();
        for (size_t bi = 0; bi < bases.size(); bi++) {
            if (only_base >= 0 && (int)bi != only_base) continue;
            for (int opt = 0; opt < 2; opt++) for (int mgr = 0; mgr < 2; mgr++) {
                if ((only_opt >= 0 && opt != only_opt) || (only_mgr >= 0 && mgr != only_mgr)) continue;
                int sig; SanWatch sw; lc->pairs++;
                if ((sig = GUARD_ENTER()) == 0) { one(bases[bi], r, opt, mgr); GUARD_LEAVE(); if (sw.tripped()) ctx->violation("", enc(bases[bi].text, ref_text, opt, mgr), "AddressSanitizer reported an invalid access"); }
                else { ctx->violation("", enc(bases[bi].text, ref_text, opt, mgr), fmt("%s during resolution (crash, or write to a read-only argument)", signame(sig))); led.reset(); }
            }
        }
    }
};

void run(Ctx &ctx) {
    Local lc; int n = (ctx.secondary ? 2 : ctx.quick() ? 3 : 4) + ctx.bonus;
    std::vector<Str> bases = resolve_bases(true), refs = resolve_refs(n);
    Runner<char> ra(&ctx, &lc); Runner<wchar_t> rw(&ctx, &lc); ra.setup(bases); rw.setup(bases);
    for (size_t i = 0; i < refs.size(); i++) {
        if (!ctx.mine(i)) continue;
        if (ctx.expired()) break;
        ctx.progress++; ra.run_ref(refs[i]); rw.run_ref(refs[i]);
    }
    // stretch family as references (long segments, many segments, long runs of dot segments) against a few bases of every kind
    { std::vector<Str> sb = { "s://h/a/b?bq", "s:/a/b", "s:a/b", "s:", "s://u@[::1]:1/x/../y/z" }; Runner<char> sa(&ctx, &lc, 6000); Runner<wchar_t> sw2(&ctx, &lc, 6000); sa.setup(sb); sw2.setup(sb);
      std::vector<Str> st = stretch_list(ctx.secondary || ctx.quick() ? 0 : 1);
      for (size_t i = 0; i < st.size(); i++) { if (!ctx.mine(i)) continue; if (ctx.expired()) break; ctx.progress++; sa.run_ref(st[i]); sw2.run_ref(st[i]); ctx.st.count("stretch_family"); } }
    // scheme-pair family: base and reference schemes of EQUAL length that differ at one position only (first, middle, last), next to the truly identical pair -
    // the identical-scheme option must compare every character of the scheme, in both character widths
    { std::vector<Str> sb = { "http://h/a/b", "https://h/a/b?bq", "abcdefgh://h/a/" }; Runner<char> sa(&ctx, &lc); Runner<wchar_t> sw2(&ctx, &lc); sa.setup(sb); sw2.setup(sb);
      uint64_t si = 0;
      for (auto sc : { "http", "hxtp", "htxp", "httx", "xttp", "https", "httpx", "hxtps", "htxps", "httxs", "abcdefgh", "abcdefgx", "abcdefxh", "abcdxfgh", "abxdefgh", "axcdefgh", "xbcdefgh" })
        for (auto tail : { ":g", ":../g", ":/g", "://o/p", ":", ":?q", ":#f" }) { if (!ctx.mine(si++) || ctx.expired()) continue; Str t = Str(sc) + tail; ctx.progress++; sa.run_ref(t); sw2.run_ref(t); ctx.st.count("scheme_pair_family"); } }
    ctx.st.count("evaluations", lc.calls); ctx.st.count("regime1_absolute", lc.regime[1]); ctx.st.count("regime2_rootless", lc.regime[2]); ctx.st.count("regime3_same_document", lc.regime[3]);
    ctx.st.count("rootless_alt_spelling_used", lc.alt_used); ctx.st.count("double_slash_guard_seen", lc.guard_dot); ctx.st.count("relative_base_rejections", lc.rel_base);
    for (auto &s : lc.outcomes) ctx.st.distinct("targets", s);
    if (ctx.worker == 0) { ctx.st.count("bases", bases.size()); ctx.st.count("references", refs.size()); ctx.st.count("param_n", n); ctx.st.sample("base=s://u@h:1/a/b?bq ref=../.././c:d/..?q#f strict"); ctx.st.sample("base=s:a/b ref=.//b compat"); ctx.st.sample("base=s:/a ref=/.//b"); }
}
void replay(Ctx &ctx, const Str &enc) {
    std::vector<Str> p = split(enc, '`'); if (p.size() != 5) return;
    Local lc; std::vector<Str> bases; bases.push_back(p[0]);
    if (p[4] == "A") { Runner<char> r(&ctx, &lc, 6000); r.setup(bases); r.run_ref(p[1], 0, atoi(p[2].c_str()), atoi(p[3].c_str())); }
    else { Runner<wchar_t> r(&ctx, &lc, 6000); r.setup(bases); r.run_ref(p[1], 0, atoi(p[2].c_str()), atoi(p[3].c_str())); }
}
Str coverage(const Ctx &, const Stats &st) {
    return jkv("evaluations", st.get("evaluations")) + ", " + jkv("distinct_nontrivial", st.nset("targets")) + ", " +
           jkvs("rule", "cases = (base, reference, option, memory manager, character type). Bases: scheme x 6 authorities x 12 paths x 2 queries plus scheme-less bases; references: 4 schemes x 4 authorities x all path-token sequences of length <= n over {'', '.', '..', a, b, c:d} (rootless and absolute) x 3 queries x 3 fragments, deduplicated; the full product is executed. Base and reference live in PROT_READ memory. The result is compared component for component and as recomposed text with the reference implementation of RFC 3986 5.2.2-5.2.4. distinct_nontrivial = number of distinct resolved target texts observed (capped at 200000).") + ", " +
           jkv("bases", st.get("bases")) + ", " + jkv("references", st.get("references")) + ", " + jkv("path_tokens_max", st.get("param_n")) + ", " +
           jkv("regime1_absolute", st.get("regime1_absolute")) + ", " + jkv("regime2_rootless", st.get("regime2_rootless")) + ", " + jkv("regime3_same_document", st.get("regime3_same_document")) + ", " +
           jkv("rootless_alt_spelling_used", st.get("rootless_alt_spelling_used")) + ", " + jkv("double_slash_guard_seen", st.get("double_slash_guard_seen")) + ", " + jkv("relative_base_rejections", st.get("relative_base_rejections")) + ", " + jkv("stretch_family_references", st.get("stretch_family")) + ", " + jkv("scheme_pair_family_references", st.get("scheme_pair_family")) + ", " + jsamples(st);
}
Check chk = { "C06", "exploration", run, replay, coverage, "reference resolver (harness/ref.cpp) is a literal transcription of RFC 3986 5.2.2-5.2.4; its section 5.4 examples are asserted at start-up|rootless merged paths are judged by the segment-list variant as the statement requires" };
REGISTER_CHECK(chk);
}
