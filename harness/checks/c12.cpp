// C12 - owned URIs are independent of their source; borrowed text and read-only arguments are never written.
#include "../core.h"
#include "fixture.h"
#include "../mm.h"
#include "corpus.h"
#include "norm_sets.h"

namespace {
struct Local { uint64_t cases = 0, revocations = 0, ro_calls = 0, changed_by_op = 0; };
static const char *BASE = "S://U%41@H.x:80/%7e/b/c?Q%41";

template <class C> struct Runner {
    typedef Api<C> A; typedef typename A::Uri Uri;
    Arena src, bsrc; ArenaMM ro; Ctx *ctx; Local *lc;
    Runner(Ctx *c, Local *l) : src(1), bsrc(1), ro(16), ctx(c), lc(l) {}
    static Str enc(const Str &t, int hist, int op) { return t + "`" + fmt("%d`%d`%s", hist, op, A::name()); }
    struct World { Uri u, b, d; bool hu, hb, hd; std::basic_string<C> twin_text, twin_base; World() : hu(false), hb(false), hd(false) {} };
    // builds the object of history `hist` from text placed at `tp` (and base at `bp`); returns the object to operate on
    Uri *build(World &w, const C *tp, size_t tn, const C *bp, size_t bn, int hist) {
        const C *ep; if (A::ParseSingleUriEx(&w.u, tp, tp + tn, &ep) != URI_SUCCESS) { A::FreeUriMembers(&w.u); return 0; } w.hu = true;
        if (hist == 0) return &w.u;
        if (A::ParseSingleUriEx(&w.b, bp, bp + bn, &ep) != URI_SUCCESS) { A::FreeUriMembers(&w.b); return 0; } w.hb = true;
        int rc = hist == 1 ? A::AddBaseUri(&w.d, &w.u, &w.b) : A::RemoveBaseUri(&w.d, &w.u, &w.b, hist == 3);
        if (rc != URI_SUCCESS) return 0; w.hd = true; return &w.d;
    }
    static int apply(Uri *x, int op) { static const unsigned HIGH[3] = { 0x40u, 0xFFFFFFC0u, 0x80000001u }; return op == 0 ? A::MakeOwner(x) : A::NormalizeSyntaxEx(x, op >= 64 ? HIGH[op - 64] : (unsigned)op); }
    void one(const Str &text, int hist, int op) {
        lc->cases++; ctx->progress++; Str e = enc(text, hist, op); Str what; int sig;
        std::basic_string<C> wt = widen<C>(text), wb = widen<C>(BASE);
        // the object under test: its sources live in revocable mappings
        src.reset(); bsrc.reset();
        C *tp = (C *)src.alloc((wt.size() + 1) * sizeof(C)); memcpy(tp, wt.data(), wt.size() * sizeof(C)); tp[wt.size()] = 0;
        C *bp = (C *)bsrc.alloc((wb.size() + 1) * sizeof(C)); memcpy(bp, wb.data(), wb.size() * sizeof(C)); bp[wb.size()] = 0;
        World w, twin;
        if ((sig = GUARD_ENTER()) != 0) { ctx->violation("", e, fmt("%s: the operation wrote into caller-supplied text, or the owned URI still used its revoked source", signame(sig))); return; }
        Uri *x = build(w, tp, wt.size(), bp, wb.size(), hist);
        twin.twin_text = wt; twin.twin_base = wb;
        Uri *y = build(twin, twin.twin_text.data(), wt.size(), twin.twin_base.data(), wb.size(), hist);
        if (!x || !y) { GUARD_LEAVE(); cleanup(w); cleanup(twin); return; }      // history not applicable (relative source for shorten)
        Str before = observe<C>(*x).content_key();
        src.protect(); bsrc.protect();                    // from here on a write into the source text faults
        int rc = apply(x, op), rc2 = apply(y, op);
        if (rc != URI_SUCCESS || rc2 != URI_SUCCESS) what = fmt("operation failed (%d / %d)", rc, rc2);
        else {
            Str after = observe<C>(*x).content_key();
            if (op == 0 && after != before) what = "makeOwner changed the content: " + before + " -> " + after;
            if (after != before) lc->changed_by_op++;
            if (!x->owner) what = "the owner flag is not set after the operation";
            int trc; Str t0 = to_text<C>(*x, &trc);
            // release everything the object could still be borrowing from, then scribble over and revoke the sources
            if (hist != 0) { A::FreeUriMembers(&w.u); w.hu = false; A::FreeUriMembers(&w.b); w.hb = false; }
            src.unprotect(); bsrc.unprotect(); memset(src.base, 0xAA, src.bytes); memset(bsrc.base, 0xAA, bsrc.bytes);
            Str k1 = observe<C>(*x).content_key(), kt = observe<C>(*y).content_key();
            if (what.empty() && k1 != after) what = "content changed when the source text was overwritten: " + after + " -> " + k1;
            if (what.empty() && k1 != kt) what = "content differs from the same object whose source is alive: " + k1 + " vs " + kt;
            src.revoke(); bsrc.revoke(); lc->revocations++;
            Str t1 = to_text<C>(*x, &trc);
            if (what.empty() && (trc != URI_SUCCESS || t1 != t0)) what = "recomposed text changed after the source was released: '" + t0 + "' -> '" + t1 + "'";
            int r3 = A::NormalizeSyntax(x), r4 = A::NormalizeSyntax(y);
            Str t2 = to_text<C>(*x, &trc), t3 = to_text<C>(*y, &trc);
            if (what.empty() && (r3 || r4 || t2 != t3)) what = "a later normalisation of the owned URI differs from the twin: '" + t2 + "' vs '" + t3 + "'";
        }
        GUARD_LEAVE();
        src.unprotect(); bsrc.unprotect();
        cleanup(w); cleanup(twin);
        if (!what.empty()) ctx->violation("", e, what);
    }
    void cleanup(World &w) { if (w.hd) A::FreeUriMembers(&w.d); if (w.hu) A::FreeUriMembers(&w.u); if (w.hb) A::FreeUriMembers(&w.b); w.hd = w.hu = w.hb = false; }
    // read-only arguments: the URI (struct, segments, host data, text) lives in PROT_READ memory
    void ro_calls(const Str &text) {
        ro.arena.reset(); RoUri<C> a = make_ro<C>(ro, text), b = make_ro<C>(ro, BASE); if (!a.ok || !b.ok) return; ro.arena.protect(); int sig; lc->ro_calls++;
        if ((sig = GUARD_ENTER()) != 0) { ctx->violation("", enc(text, 9, 0), fmt("%s: a function wrote to a URI passed as a read-only argument", signame(sig))); return; }
        int need = 0; A::ToStringCharsRequired(a.u, &need); std::vector<C> buf((size_t)need + 2); int w = 0; A::ToString(buf.data(), a.u, need + 1, &w);
        unsigned m = A::NormalizeSyntaxMaskRequired(a.u); unsigned m2 = 0; A::NormalizeSyntaxMaskRequiredEx(a.u, &m2); (void)m;
        A::EqualsUri(a.u, a.u); A::EqualsUri(a.u, b.u); A::EqualsUri(b.u, a.u);
        Uri d; if (A::AddBaseUri(&d, a.u, b.u) == URI_SUCCESS) A::FreeUriMembers(&d); else A::FreeUriMembers(&d);
        if (A::RemoveBaseUri(&d, b.u, a.u, URI_FALSE) == URI_SUCCESS) A::FreeUriMembers(&d); else A::FreeUriMembers(&d);
        if (A::RemoveBaseUri(&d, a.u, b.u, URI_TRUE) == URI_SUCCESS) A::FreeUriMembers(&d); else A::FreeUriMembers(&d);
        GUARD_LEAVE();
    }
    // the same calls with OWNER arguments made through a ledger manager: a callee that treats an owner argument as its own (releases or
    // rewrites what it holds) shows as a changed key, as a free of a block that is still in use, or as a double free at the end
    Ledger led;
    void owner_args(const Str &text) {
        static const char *BASES[] = { BASE, "s://1.2.3.4/a/./b/../c/d?q", "s:/x/../y/./z", "s:a/./b" };
        for (const char *bt : BASES) {
            led.reset(); std::basic_string<C> wa = widen<C>(text), wb = widen<C>(bt); Uri a, b, d; const C *ep; int sig; lc->ro_calls++; Str e = enc(text, 8, 0), what;
            if ((sig = GUARD_ENTER()) != 0) { ctx->violation("", e, fmt("%s in a call with owner arguments (base %s)", signame(sig), bt)); led.reset(); continue; }
            bool ok = A::ParseSingleUriExMm(&a, wa.data(), wa.data() + wa.size(), &ep, &led.mm) == URI_SUCCESS && A::ParseSingleUriExMm(&b, wb.data(), wb.data() + wb.size(), &ep, &led.mm) == URI_SUCCESS
                      && A::MakeOwnerMm(&a, &led.mm) == URI_SUCCESS && A::MakeOwnerMm(&b, &led.mm) == URI_SUCCESS;
            if (ok) {
                Str ka = observe<C>(a).key(), kb = observe<C>(b).key();
                auto same = [&](const char *call) { if (what.empty() && (observe<C>(a).key() != ka || observe<C>(b).key() != kb || !led.errors.empty())) what = Str(call) + " modified an owner argument or released memory it holds" + (led.errors.empty() ? Str() : " (" + led.errors[0] + ")"); };
                int need = 0; A::ToStringCharsRequired(&a, &need); std::vector<C> buf((size_t)need + 2); int w = 0; A::ToString(buf.data(), &a, need + 1, &w); same("uriToString");
                unsigned m2 = 0; A::NormalizeSyntaxMaskRequiredEx(&a, &m2); same("uriNormalizeSyntaxMaskRequiredEx"); A::EqualsUri(&a, &b); A::EqualsUri(&b, &a); same("uriEqualsUri");
                A::AddBaseUriExMm(&d, &a, &b, URI_RESOLVE_STRICTLY, &led.mm); A::FreeUriMembersMm(&d, &led.mm); same("uriAddBaseUri");
                A::AddBaseUriExMm(&d, &b, &a, URI_RESOLVE_IDENTICAL_SCHEME_COMPAT, &led.mm); A::FreeUriMembersMm(&d, &led.mm); same("uriAddBaseUri (argument as base)");
                A::RemoveBaseUriMm(&d, &a, &b, URI_FALSE, &led.mm); A::FreeUriMembersMm(&d, &led.mm); same("uriRemoveBaseUri");
                A::RemoveBaseUriMm(&d, &b, &a, URI_FALSE, &led.mm); A::FreeUriMembersMm(&d, &led.mm); same("uriRemoveBaseUri (argument as base)");
                A::RemoveBaseUriMm(&d, &a, &b, URI_TRUE, &led.mm); A::FreeUriMembersMm(&d, &led.mm); same("uriRemoveBaseUri (domain root)");
            }
            A::FreeUriMembersMm(&a, &led.mm); A::FreeUriMembersMm(&b, &led.mm);
            if (what.empty() && ok && (!led.errors.empty() || !led.live.empty())) what = led.errors.empty() ? fmt("%zu blocks outstanding after freeing the owner arguments", led.live.size()) : "freeing the owner arguments: " + led.errors[0];
            GUARD_LEAVE(); led.reset();
            if (!what.empty()) ctx->violation("", e, what + " [base " + bt + "]");
        }
    }
    void run_text(const Str &t, int only_hist = -1, int only_op = -1) {
        SanWatch sw;
        // "any non-zero mask": also masks that carry bits beyond the six defined ones (ops 64.. map to 0x40, 0xFFFFFFC0, 0x80000001)
        if (only_hist < 0 || only_op >= 64) for (int op = 64; op < 67; op++) { if (only_op >= 0 && op != only_op) continue; one(t, 0, op); }
        for (int hist = 0; hist < 4; hist++) for (int op = 0; op < 64; op++) { if ((only_hist >= 0 && hist != only_hist) || (only_op >= 0 && op != only_op)) continue; if (hist > 0 && !(op == 0 || op == 63 || op == 8 || op == 4 || op == 1 || op == 2 || op == 48)) continue; one(t, hist, op); }
        if (only_hist < 0 || only_hist == 9) ro_calls(t);
        if (only_hist < 0 || only_hist == 8) owner_args(t);
        if (sw.tripped()) ctx->violation("", enc(t, 0, 0), "AddressSanitizer reported an invalid access (use of the released source?)");
    }
};
void run(Ctx &ctx) {
    Local lc; Runner<char> ra(&ctx, &lc); Runner<wchar_t> rw(&ctx, &lc);
    std::vector<Str> corpus = norm_corpus(ctx.secondary ? 0 : ctx.quick() ? 0 : 1);
    // shapes whose normal form needs a segment the library has to ADD (the guarding "." in front of an empty first segment or of a first
    // segment with a colon): that text must be the URI's own as well, not a constant shared between URIs
    for (auto x : { "/.//b", "s:/a/..//b", ".//c", "/%2E//x", "./a:b", "x/../c:d/e", "s:/.//", "a/..//b/c", "//[v1.a]/p", "s://[v7.x:y]", "S://[v1.a]:1/%41" /* IPvFuture literals without a capital letter: nothing to fold, and still the URI's own copy afterwards */ }) corpus.push_back(x);
    if (!ctx.secondary) { std::vector<Str> sh = shape_list(ctx.quick() ? 0 : 1); corpus.insert(corpus.end(), sh.begin(), sh.end()); }
    for (size_t i = 0; i < corpus.size(); i++) { if (!ctx.mine(i)) continue; if (ctx.expired()) break; ra.run_text(corpus[i]); rw.run_text(corpus[i]); }
    ctx.st.count("evaluations", lc.cases + lc.ro_calls); ctx.st.count("cases", lc.cases); ctx.st.count("source_revocations", lc.revocations); ctx.st.count("read_only_argument_batches", lc.ro_calls); ctx.st.count("cases_where_the_operation_changed_content", lc.changed_by_op);
    if (ctx.worker == 0) { ctx.st.count("corpus", corpus.size()); ctx.st.sample("S://%41%7e@[vF.X]/a/%2e/%2E%2E/b?q=%7E#F%2f ; parse ; normalize(mask 4) ; overwrite + revoke source"); ctx.st.sample("//1.2.3.4/a ; resolve against base ; makeOwner ; free reference and base, revoke both texts"); }
}
void replay(Ctx &ctx, const Str &enc) { std::vector<Str> p = split(enc, '`'); if (p.size() != 4) return; Local lc; if (p[3] == "A") { Runner<char> r(&ctx, &lc); r.run_text(p[0], atoi(p[1].c_str()), atoi(p[2].c_str())); } else { Runner<wchar_t> r(&ctx, &lc); r.run_text(p[0], atoi(p[1].c_str()), atoi(p[2].c_str())); } }
Str coverage(const Ctx &, const Stats &st) {
    return jkv("evaluations", st.get("evaluations")) + ", " + jkv("distinct_nontrivial", st.get("source_revocations")) + ", " +
           jkvs("rule", "cases = (URI text, history, final operation, char type): history in {parse; parse + resolve against a base; parse + shorten against the base in both modes}; final operation in {makeOwner, normalize with each of the 63 non-zero masks} (after resolve/shorten: makeOwner and 6 masks). Source texts live in their own mappings: PROT_READ while the final operation runs (an in-place change of borrowed text faults), then the intermediate URIs are freed, the texts are overwritten with 0xAA (content must not change and must equal a twin whose source stays alive), then made PROT_NONE (recomposition, a further full normalisation and the final free must not fault and must match the twin). Plus: recomposition, mask query, comparison, resolution and reference creation on URIs living entirely in PROT_READ memory. distinct_nontrivial = cases that reached the revocation stage.") + ", " +
           jkv("corpus_uris", st.get("corpus")) + ", " + jkv("cases", st.get("cases")) + ", " + jkv("source_revocations", st.get("source_revocations")) + ", " + jkv("read_only_argument_batches", st.get("read_only_argument_batches")) + ", " + jkv("cases_where_the_operation_changed_content", st.get("cases_where_the_operation_changed_content")) + ", " + jsamples(st);
}
Check chk = { "C12", "exploration", run, replay, coverage, "a use of released source text is caught by the page protection (PROT_NONE) of the mapping that held it; one URI text per mapping" };
REGISTER_CHECK(chk);
}
