// Base / reference sets for the resolution family (C06, C07, C09, C10).
#pragma once
#include "corpus.h"

// every combination of user info x host kind x port (absent, empty, digits): the authority is copied and compared as a unit, and its
// parts must not depend on each other (a port lost for one host kind, a host kind decided by what follows it)
static inline std::vector<Str> authority_product() {
    std::vector<Str> v;
    for (auto ui : { "", "u@", "@" }) for (auto h : { "h", "1.2.3.4", "[1::2]", "[v1.a]", "1%2E2.3.4", "" }) for (auto po : { "", ":", ":8" }) v.push_back(Str("//") + ui + h + po);
    return v;
}
static inline std::vector<Str> resolve_bases(bool with_relative) {
    static const char *auth[] = { 0, "//h", "//", "//u@h:1", "//[::1]", "//1.2.3.4", "//[vF.b]" };
    static const char *path[] = { "", "/", "/a", "/a/", "/a/b", "/a//", "//a", "a", "a/b", "a/", "/.", "/a/..", "/a/../b/c", "/./a/b", "/x/..//y/z", "a/./b" };   // the last four: dot segments among the directories of the base
    static const char *query[] = { 0, "?bq" };
    std::vector<Str> v; std::set<Str> seen;
    for (auto a : auth) for (auto p : path) for (auto q : query) {
        Str pp = p; if (a && !pp.empty() && pp[0] != '/') continue; if (!a && pp.compare(0, 2, "//") == 0) continue;
        Str s = Str("s:") + (a ? a : "") + pp + (q ? q : "");
        if (ref::is_uri_reference(s) && seen.insert(s).second) v.push_back(s);
    }
    for (auto &au : authority_product()) for (auto p : { "", "/a/b" }) { Str t = "s:" + au + p; if (ref::is_uri_reference(t) && seen.insert(t).second) v.push_back(t); }
    for (auto s : { "sx://h/a/b", "sx:/a", "sx:a/b?bq", "S://h/a/b" }) v.push_back(s);   // a base whose scheme extends / differs in case from the references' "s"
    if (with_relative) for (auto s : { "", "/a", "//h/a", "a" }) v.push_back(s);
    return v;
}
static inline std::vector<Str> dot_tokens() { return { "", ".", "..", "a", "b", "c:d", "1:e" }; }   // "1:e": a colon segment that does not look like a scheme

// references: scheme x authority x path-token sequences (<= n) x query x fragment
static inline std::vector<Str> resolve_refs(int n, bool rich = true) {
    std::vector<const char *> scheme = { 0, "s:", "S:", "t:", "sx:" /* the base scheme "s" is a proper prefix of it */ }, auth = { 0, "//g", "//", "//@", "//[1::2]", "//1.2.3.4", "//u@[v1.a]:1" }, query = { 0, "?", "?q" }, frag = { 0, "#", "#f" };
    if (!rich) { scheme = { 0, "s:" }; auth = { 0, "//h" }; query = { 0, "?q" }; frag = { 0, "#f" }; }
    std::vector<Str> paths = path_token_paths(dot_tokens(), n, 0), ap = path_token_paths(dot_tokens(), n, 1);
    paths.insert(paths.end(), ap.begin(), ap.end());
    std::vector<Str> v; std::set<Str> seen;
    for (auto sc : scheme) for (auto a : auth) for (auto &p : paths) {
        if (a && !p.empty() && p[0] != '/') continue;
        if (!a && p.compare(0, 2, "//") == 0) continue;
        Str head = Str(sc ? sc : "") + (a ? a : "") + p;
        if (!ref::is_uri_reference(head)) continue;
        for (auto q : query) for (auto f : frag) { Str s = head + (q ? q : "") + (f ? f : ""); if (seen.insert(s).second) v.push_back(s); }
    }
    if (rich) for (auto &au : authority_product()) for (auto sc : { "", "s:" }) for (auto p : { "", "/", "/a/../b" }) for (auto q : { "", "?q" }) { Str t = Str(sc) + au + p + q; if (ref::is_uri_reference(t) && seen.insert(t).second) v.push_back(t); }
    // deeper paths over a reduced alphabet (runs of empty segments behind dot segments need four and more tokens), bare and with an own scheme
    std::vector<Str> deep = path_token_paths({ "", ".", "..", "b" }, n + 2, 0), deep_abs = path_token_paths({ "", ".", "..", "b" }, n + 2, 1);
    deep.insert(deep.end(), deep_abs.begin(), deep_abs.end());
    for (auto &p : deep) for (auto sc : { "", "t:" }) { if (!*sc && p.compare(0, 2, "//") == 0) continue; Str s = Str(sc) + p; if (p.compare(0, 2, "//") == 0) continue; if (ref::is_uri_reference(s) && seen.insert(s).second) v.push_back(s); }
    return v;
}
