// C13 - all memory goes through the supplied manager and is fully returned.
#include "scenario.h"

namespace {
struct Local { uint64_t runs = 0, specs = 0, incomplete = 0, allocs_seen = 0, chains = 0; };

template <class C> struct Runner {
    typedef Api<C> A; typedef typename A::Uri Uri; typedef typename A::QList QL;
    Ctx *ctx; Local *lc; ArenaMM ro; Mem led, libc, completed;
    Runner(Ctx *c, Local *l) : ctx(c), lc(l), ro(64), led(0), libc(1), completed(2) {}
    static Str enc(const ScnSpec &s, int memkind) { return s.enc() + fmt("`%d`%s", memkind, Api<C>::name()); }
    void exec(const ScnSpec &sp, Mem &mem) {
        lc->runs++; ctx->progress++; mem.reset();
        Scenario<C> sc(sp, &mem, &ro); Str e = enc(sp, mem.kind); int sig; Str what; SanWatch sw;
        if ((sig = GUARD_ENTER()) != 0) { ctx->violation("", e, fmt("%s in %s (a completed manager offers only malloc and free to its backend)", signame(sig), sp.show().c_str())); mem.reset(); return; }
        if (!sc.setup()) { GUARD_LEAVE(); ctx->harness_error("scenario setup failed: " + sp.show()); return; }
        mem.arm(0, 0, 0);
        int rc = sc.call(); lc->allocs_seen += mem.requests();
        if (rc == URI_ERROR_MALLOC) what = "URI_ERROR_MALLOC without any allocation failing";
        if (what.empty()) what = mem.bypass();
        if (what.empty()) what = mem.misuse();
        if (what.empty() && mem.kind != 1 && (mem.led.n_realloc || mem.led.n_reallocarray) && mem.kind == 2) what = "the backend of a completed manager was asked for realloc/reallocarray";
        if (what.empty()) what = sc.inputs_changed();
        sc.cleanup(rc);
        if (what.empty() && mem.outstanding() != 0) what = fmt("%ld block(s) outstanding after the matching release call", mem.outstanding());
        uint64_t f1 = mem.frees(); sc.cleanup_again();
        if (what.empty() && mem.frees() != f1) what = "freeing URI members again released more memory";
        if (what.empty()) what = mem.misuse();
        if (what.empty()) what = mem.bypass();
        GUARD_LEAVE();
        if (what.empty() && sw.tripped()) what = "AddressSanitizer reported an invalid access";
        if (!what.empty()) { ctx->violation("", e, what + " in " + sp.show() + fmt(" [manager kind %d]", mem.kind)); mem.reset(); }
    }
    void run_spec(const ScnSpec &sp, int only = -1) { lc->specs++; Mem *ms[3] = { &led, &libc, &completed }; for (int k = 0; k < 3; k++) { if (only >= 0 && k != only) continue; if (sp.kind == K_PARSE && sp.p1 != 0 && k != 1) continue; exec(sp, *ms[k]); } }

    // operation chains on one object with one manager: parse -> normalize -> resolve against it -> makeOwner ... -> free everything
    void chain(const Str &t, const Str &bt, int memkind) {
        Mem *ms[3] = { &led, &libc, &completed }; Mem &mem = *ms[memkind]; mem.reset(); UriMemoryManager *mm = mem.mm(); lc->chains++; ctx->progress++;
        Str e = "chain`" + t + "`" + bt + fmt("`%d`%s", memkind, A::name()); int sig; Str what;
        if ((sig = GUARD_ENTER()) != 0) { ctx->violation("", e, fmt("%s in an operation chain", signame(sig))); mem.reset(); return; }
        std::basic_string<C> w = widen<C>(t), bw = widen<C>(bt); const C *ep; Uri u, b, d, s2; memset(&d, 0, sizeof d); memset(&s2, 0, sizeof s2);
        bool ok = (mm ? A::ParseSingleUriExMm(&u, w.data(), w.data() + w.size(), &ep, mm) : A::ParseSingleUriEx(&u, w.data(), w.data() + w.size(), &ep)) == URI_SUCCESS;
        ok = ok && (mm ? A::ParseSingleUriExMm(&b, bw.data(), bw.data() + bw.size(), &ep, mm) : A::ParseSingleUriEx(&b, bw.data(), bw.data() + bw.size(), &ep)) == URI_SUCCESS;
        if (ok) {
            int r1 = mm ? A::NormalizeSyntaxExMm(&u, 8, mm) : A::NormalizeSyntaxEx(&u, 8);
            int r2 = mm ? A::AddBaseUriExMm(&d, &u, &b, URI_RESOLVE_STRICTLY, mm) : A::AddBaseUri(&d, &u, &b);
            int r3 = r2 == URI_SUCCESS ? (mm ? A::NormalizeSyntaxExMm(&d, 63, mm) : A::NormalizeSyntax(&d)) : 0;
            int r4 = r2 == URI_SUCCESS ? (mm ? A::RemoveBaseUriMm(&s2, &d, &b, URI_FALSE, mm) : A::RemoveBaseUri(&s2, &d, &b, URI_FALSE)) : 0;
            int r5 = (r2 == URI_SUCCESS && r4 == URI_SUCCESS) ? (mm ? A::MakeOwnerMm(&s2, mm) : A::MakeOwner(&s2)) : 0;
            if (r1 || r3 || r5 || (r2 && r2 != URI_ERROR_ADDBASE_REL_BASE) || (r4 && r4 != URI_ERROR_REMOVEBASE_REL_BASE && r4 != URI_ERROR_REMOVEBASE_REL_SOURCE)) what = fmt("unexpected return codes %d %d %d %d %d", r1, r2, r3, r4, r5);
            if (mm) { A::FreeUriMembersMm(&s2, mm); A::FreeUriMembersMm(&d, mm); } else { A::FreeUriMembers(&s2); A::FreeUriMembers(&d); }
        }
        if (mm) { A::FreeUriMembersMm(&u, mm); A::FreeUriMembersMm(&b, mm); } else { A::FreeUriMembers(&u); A::FreeUriMembers(&b); }
        if (what.empty()) what = mem.bypass();
        if (what.empty()) what = mem.misuse();
        if (what.empty() && mem.outstanding() != 0) what = fmt("%ld block(s) outstanding after freeing every URI of the chain", mem.outstanding());
        GUARD_LEAVE();
        if (!what.empty()) { ctx->violation("", e, what); mem.reset(); }
    }

    // incomplete managers: every non-empty subset of the five function pointers missing
    void incomplete_all() {
        std::basic_string<C> t = widen<C>("s://h/a/../b?q"), q = widen<C>("a=b&c"); const C *ep;
        Uri good, base; A::ParseSingleUriEx(&good, t.data(), t.data() + t.size(), &ep); A::ParseSingleUriEx(&base, t.data(), t.data() + t.size(), &ep);
        QL node; std::basic_string<C> k = widen<C>("k"); node.key = k.c_str(); node.value = 0; node.next = 0;
        Uri owner; A::ParseSingleUriEx(&owner, t.data(), t.data() + t.size(), &ep); A::MakeOwner(&owner);     // an owner URI: the "nothing to copy" shortcuts must not come before the manager check
        for (int missing = 1; missing < 32; missing++) {
            led.reset(); UriMemoryManager m = led.led.mm;
            if (missing & 1) m.malloc = 0; if (missing & 2) m.calloc = 0; if (missing & 4) m.realloc = 0; if (missing & 8) m.reallocarray = 0; if (missing & 16) m.free = 0;
            for (int fn = 0; fn < 14; fn++) {
                lc->incomplete++; ctx->progress++;
                Uri out; memset(&out, 0xEE, sizeof out); Uri pat = out; QL *ql = (QL *)0x11; C *cs = (C *)0x22; int cnt = -5; int rc = -1; int sig;
                Str e = fmt("incomplete`%d`%d`%s", missing, fn, A::name());
                if ((sig = GUARD_ENTER()) != 0) { ctx->violation("", e, fmt("%s: a missing function pointer was called", signame(sig))); continue; }
                bool out_checked = true;
                switch (fn) {
                case 0: rc = A::ParseSingleUriExMm(&out, t.data(), t.data() + t.size(), &ep, &m); break;
                case 1: rc = A::FreeUriMembersMm(&good, &m); out_checked = false; break;
                case 2: rc = A::AddBaseUriExMm(&out, &good, &base, URI_RESOLVE_STRICTLY, &m); break;
                case 3: rc = A::RemoveBaseUriMm(&out, &good, &base, URI_FALSE, &m); break;
                case 4: rc = A::NormalizeSyntaxExMm(&good, 63, &m); out_checked = false; break;
                case 5: rc = A::MakeOwnerMm(&good, &m); out_checked = false; break;
                case 6: rc = A::ComposeQueryMallocExMm(&cs, &node, URI_TRUE, URI_TRUE, &m); out_checked = false; if (cs != (C *)0x22) rc = -100; break;
                case 7: rc = A::DissectQueryMallocExMm(&ql, &cnt, q.data(), q.data() + q.size(), URI_TRUE, URI_BR_DONT_TOUCH, &m); out_checked = false; if (ql != (QL *)0x11 && ql != 0) rc = -101; break;
                case 8: rc = A::FreeQueryListMm(&node, &m); out_checked = false; break;
                case 9: { UriMemoryManager x = m; rc = uriTestMemoryManager(&x); out_checked = false; break; }
                case 10: rc = A::MakeOwnerMm(&owner, &m); out_checked = false; break;
                case 11: rc = A::NormalizeSyntaxExMm(&owner, 63, &m); out_checked = false; break;
                case 12: rc = A::NormalizeSyntaxExMm(&good, 0, &m); out_checked = false; break;
                case 13: rc = A::FreeUriMembersMm(&owner, &m); out_checked = false; break;
                }
                GUARD_LEAVE();
                Str what;
                if (rc != URI_ERROR_MEMORY_MANAGER_INCOMPLETE) what = fmt("rc=%d, expected URI_ERROR_MEMORY_MANAGER_INCOMPLETE", rc);
                else if (led.led.n_malloc || led.led.n_calloc || led.led.n_realloc || led.led.n_reallocarray || led.led.n_free || led.led.n_free_null) what = "a function of the incomplete manager was called";
                else if (libc_alloc_calls() != led.libc_calls_base) what = "libc was used instead";
                else if (out_checked && fn != 0 && fn != 2 && fn != 3 && memcmp(&out, &pat, sizeof out) != 0) what = "output touched";
                if (!what.empty()) ctx->violation("", e, what);
            }
        }
        A::FreeUriMembers(&good); A::FreeUriMembers(&base); A::FreeUriMembers(&owner);
    }
};
void run(Ctx &ctx) {
    Local lc; Runner<char> ra(&ctx, &lc); Runner<wchar_t> rw(&ctx, &lc);
    std::vector<ScnSpec> specs = scenario_specs(ctx.secondary ? 0 : ctx.quick() ? 2 : 3);
    for (size_t i = 0; i < specs.size(); i++) { if (!ctx.mine(i)) continue; if (ctx.expired()) break; ra.run_spec(specs[i]); rw.run_spec(specs[i]); }
    std::vector<Str> texts = shape_list(ctx.secondary ? 0 : 1), bases = { "s://h/a/b?q", "s:a/b", "a/b" }; uint64_t idx = 0;
    for (auto &t : texts) for (auto &b : bases) { if (!ctx.mine(idx++)) continue; if (ctx.expired()) break; for (int k = 0; k < 3; k++) { ra.chain(t, b, k); rw.chain(t, b, k); } }
    if (ctx.worker == 0) { ra.incomplete_all(); rw.incomplete_all(); }
    ctx.st.count("evaluations", lc.runs + lc.incomplete + lc.chains); ctx.st.count("scenario_runs", lc.runs); ctx.st.count("scenarios", lc.specs); ctx.st.count("incomplete_manager_calls", lc.incomplete); ctx.st.count("allocation_requests_observed", lc.allocs_seen); ctx.st.count("operation_chains", lc.chains);
    if (ctx.worker == 0) { ctx.st.count("universe", specs.size()); ctx.st.sample("normalize(S://H/%7e/../x, 63, borrowed) with a manager completed from malloc/free only"); ctx.st.sample("chain parse->normalize->resolve->normalize->shorten->makeOwner->free, ledger manager"); ctx.st.sample("incomplete manager (calloc and free missing) x uriDissectQueryMallocExMm"); }
}
void replay(Ctx &ctx, const Str &enc) {
    std::vector<Str> p = split(enc, '`'); Local lc;
    if (p[0] == "chain" && p.size() == 5) { if (p[4] == "A") { Runner<char> r(&ctx, &lc); r.chain(p[1], p[2], atoi(p[3].c_str())); } else { Runner<wchar_t> r(&ctx, &lc); r.chain(p[1], p[2], atoi(p[3].c_str())); } return; }
    if (p[0] == "incomplete") { if (p.back() == "A") { Runner<char> r(&ctx, &lc); r.incomplete_all(); } else { Runner<wchar_t> r(&ctx, &lc); r.incomplete_all(); } return; }
    ScnSpec sp; if (p.size() != 7 || !ScnSpec::dec(p, 0, sp)) return; int mk = atoi(p[5].c_str());
    if (p[6] == "A") { Runner<char> r(&ctx, &lc); r.run_spec(sp, mk); } else { Runner<wchar_t> r(&ctx, &lc); r.run_spec(sp, mk); }
}
Str coverage(const Ctx &, const Stats &st) {
    return jkv("evaluations", st.get("evaluations")) + ", " + jkv("distinct_nontrivial", st.get("scenario_runs") + st.get("operation_chains")) + ", " +
           jkvs("rule", "cases = (call with inputs, manager kind, char type) over the scenario universe (parse, makeOwner, normalize x 8 masks x borrowed/owned, resolve x 2 options, shorten x 2 modes, dissectQuery, composeQueryMalloc) with manager kind in {ledger, NULL (libc via interposed malloc/calloc/realloc/reallocarray/free of the library's own objects), ledger backend with ONLY malloc/free wrapped by uriCompleteMemoryManager}; plus six-call operation chains on every URI of the shape product x 3 bases x 3 manager kinds; plus all 31 incomplete managers x 10 manager-taking functions. Oracle: no libc call behind a custom manager's back, every free presents a live pointer of the same manager, nothing outstanding after the matching release, repeated free releases nothing, incomplete managers rejected before any call. distinct_nontrivial = scenario runs + chains (distinct by construction).") + ", " +
           jkv("scenario_runs", st.get("scenario_runs")) + ", " + jkv("scenario_universe", st.get("universe")) + ", " + jkv("operation_chains", st.get("operation_chains")) + ", " + jkv("incomplete_manager_calls", st.get("incomplete_manager_calls")) + ", " + jkv("allocation_requests_observed", st.get("allocation_requests_observed")) + ", " + jsamples(st);
}
Check chk = { "C13", "exploration", run, replay, coverage, "libc calls made by the library's own object files are renamed at link level (objcopy --redefine-sym) and therefore seen individually; harness allocations are not counted" };
REGISTER_CHECK(chk);
}
