// Parsed URIs that live entirely in read-only memory (text, struct, segments, host data) while a call is under test.
#pragma once
#include "../core.h"
#include "../plat.h"
#include "../mm.h"
#include "../obs.h"

struct ArenaMM {
    UriMemoryManager mm; Arena arena;
    explicit ArenaMM(size_t pages = 256) : arena(pages) { mm.malloc = s_malloc; mm.calloc = s_calloc; mm.realloc = s_realloc; mm.reallocarray = s_reallocarray; mm.free = s_free; mm.userData = this; }
    static void *s_malloc(UriMemoryManager *m, size_t n) { return ((ArenaMM *)m->userData)->arena.alloc(n ? n : 1); }
    static void *s_calloc(UriMemoryManager *m, size_t a, size_t b) { void *p = ((ArenaMM *)m->userData)->arena.alloc(a * b ? a * b : 1); memset(p, 0, a * b); return p; }
    static void *s_realloc(UriMemoryManager *, void *, size_t) { abort(); }
    static void *s_reallocarray(UriMemoryManager *, void *, size_t, size_t) { abort(); }
    static void s_free(UriMemoryManager *, void *) {}
};

template <class C> struct RoUri {
    typename Api<C>::Uri *u; Str text; ref::RUri r; bool ok;
    RoUri() : u(0), ok(false) {}
};
// Parse `text` into the arena (the arena must be writable); the text itself is copied into the arena too.
template <class C> RoUri<C> make_ro(ArenaMM &am, const Str &text) {
    typedef Api<C> A; RoUri<C> x; x.text = text;
    std::basic_string<C> w = widen<C>(text);
    C *t = (C *)am.arena.alloc((w.size() + 1) * sizeof(C)); memcpy(t, w.data(), w.size() * sizeof(C)); t[w.size()] = 0;
    x.u = (typename A::Uri *)am.arena.alloc(sizeof(typename A::Uri));
    const C *ep = 0; int rc = A::ParseSingleUriExMm(x.u, t, t + w.size(), &ep, &am.mm);
    x.ok = rc == URI_SUCCESS && ref::decompose(text, x.r);
    return x;
}
