// C19 - the char and wchar_t APIs behave identically (case-by-case differential of complete observations).
#include "../core.h"
#include "../mm.h"
#include "fixture.h"
#include "parse_sets.h"
#include "corpus.h"
#include "resolve_sets.h"
#include "norm_sets.h"

extern "C" void vf_lib_free(void *);
namespace {
struct Local { uint64_t cases = 0; std::map<Str, uint64_t> fam; };

template <class C> struct Obs {
    typedef Api<C> A; typedef typename A::Uri Uri; typedef typename A::QList QL;
    OutBuf ob; Ledger led; Obs() : ob(8) {}
    static Str okey(const Uri &u, const C *f, int n) {
        UriObs o = observe<C>(u, f, f + n); Str k = o.key();
        const RangeObs *rs[] = { &o.scheme, &o.userinfo, &o.host, &o.port, &o.query, &o.fragment };
        for (auto r : rs) k += fmt(",%ld", r->off == LONG_MIN ? -1L : r->off);
        for (auto &s : o.segs) k += fmt(";%ld", s.off == LONG_MIN ? -1L : s.off);
        return k;
    }
    Str parse(const Str &s) {
        std::basic_string<C> w = widen<C>(s); Uri u; const C *ep = 0; int rc = A::ParseSingleUriEx(&u, w.data(), w.data() + w.size(), &ep);
        Str r = fmt("rc=%d err=%ld ", rc, rc ? (long)(ep ? ep - w.data() : -1) : 0L); if (rc == URI_SUCCESS) r += okey(u, w.data(), (int)w.size());
        typename A::State st; Uri v; st.uri = &v; int rc2 = A::ParseUriEx(&st, w.data(), w.data() + w.size()); r += fmt(" | state rc=%d code=%d err=%ld", rc2, st.errorCode, rc2 ? (long)(st.errorPos ? st.errorPos - w.data() : -1) : 0L);
        A::FreeUriMembers(&u); A::FreeUriMembers(&v); return r;
    }
    Str tostring(const Str &s) {
        std::basic_string<C> w = widen<C>(s); Uri u; const C *ep; if (A::ParseSingleUriEx(&u, w.data(), w.data() + w.size(), &ep)) { A::FreeUriMembers(&u); return "noparse"; }
        int need = -1; int rc = A::ToStringCharsRequired(&u, &need); Str r = fmt("req rc=%d n=%d", rc, need);
        for (int cap = 0; cap <= need + 2 && need >= 0 && need < 2000; cap++) { C *d = (C *)ob.end_minus((size_t)cap * sizeof(C)); int wr = -1; int c = A::ToString(d, &u, cap, &wr); r += fmt("|%d:%d:%d:", cap, c, wr); if (c == URI_SUCCESS) r += narrow<C>(d, d + std::char_traits<C>::length(d)); }
        A::FreeUriMembers(&u); return r;
    }
    Str two(const Str &a, const Str &b, int what, int p) {   // what: 0 resolve, 1 shorten, 2 equals
        std::basic_string<C> wa = widen<C>(a), wb = widen<C>(b); Uri u, v, d; const C *ep; Str r;
        bool ok = A::ParseSingleUriEx(&u, wa.data(), wa.data() + wa.size(), &ep) == 0; ok = (A::ParseSingleUriEx(&v, wb.data(), wb.data() + wb.size(), &ep) == 0) && ok;
        if (!ok) r = "noparse";
        else if (what == 2) r = fmt("eq=%d/%d", A::EqualsUri(&u, &v), A::EqualsUri(&v, &u));
        else { int rc = what == 0 ? A::AddBaseUriEx(&d, &u, &v, p ? URI_RESOLVE_IDENTICAL_SCHEME_COMPAT : URI_RESOLVE_STRICTLY) : A::RemoveBaseUri(&d, &u, &v, p); r = fmt("rc=%d ", rc); if (rc == 0) { r += observe<C>(d).key(); int t; r += " " + to_text<C>(d, &t); } A::FreeUriMembers(&d); }
        A::FreeUriMembers(&u); A::FreeUriMembers(&v); return r;
    }
    Str normalize(const Str &s, unsigned mask, int owned) {
        std::basic_string<C> w = widen<C>(s); Uri u; const C *ep; if (A::ParseSingleUriEx(&u, w.data(), w.data() + w.size(), &ep)) { A::FreeUriMembers(&u); return "noparse"; }
        unsigned mr = A::NormalizeSyntaxMaskRequired(&u); int r0 = owned ? A::MakeOwner(&u) : 0; Str k0 = owned ? observe<C>(u).key() : Str();
        int rc = A::NormalizeSyntaxEx(&u, mask); int t; Str r = fmt("mr=%u own=%d rc=%d ", mr, r0, rc) + k0 + " -> " + observe<C>(u).key() + " " + to_text<C>(u, &t); A::FreeUriMembers(&u);
        // the same through a ledger manager: its blocks have exactly the requested size, trailing canaries, and its realloc always moves - a size
        // computed in bytes where characters are meant (or the other way round) shows on every run, not only when the C library's heap happens to be tight
        { Uri v; led.reset(); if (A::ParseSingleUriExMm(&v, w.data(), w.data() + w.size(), &ep, &led.mm) == URI_SUCCESS) { int r1 = owned ? A::MakeOwnerMm(&v, &led.mm) : 0; int r2 = A::NormalizeSyntaxExMm(&v, mask, &led.mm);
              r += fmt(" | ledger own=%d rc=%d ", r1, r2) + observe<C>(v).key() + " " + to_text<C>(v, &t); } A::FreeUriMembersMm(&v, &led.mm);
          if (!led.errors.empty()) r += Str(" ledger:") + led.errors[0] + "[" + A::name() + "]"; if (!led.live.empty()) r += fmt(" outstanding=%zu[%s]", led.live.size(), A::name()); led.reset(); }
        return r;
    }
    Str escape(const Str &s, int plus, int nb) { std::basic_string<C> w = widen<C>(s); std::vector<C> out(s.size() * 6 + 2, (C)0x55); C *e = A::EscapeEx(w.data(), w.data() + w.size(), out.data(), plus, nb); C *e2; std::vector<C> out2(s.size() * 6 + 2, (C)0x55); e2 = A::Escape(w.c_str(), out2.data(), plus, nb);
        return fmt("%ld:", (long)(e - out.data())) + narrow<C>(out.data(), e) + fmt("|%ld:", (long)(e2 - out2.data())) + narrow<C>(out2.data(), e2) + fmt("|after=%02x", (unsigned)(out[e - out.data() + 1] & 0xff)); }
    Str unescape(const Str &s, int plus, int mode) { std::basic_string<C> w = widen<C>(s); w.push_back((C)0); const C *e = A::UnescapeInPlaceEx(&w[0], plus, (UriBreakConversion)mode); return fmt("%ld:", (long)(e - w.data())) + narrow<C>(w.data(), e); }
    Str dissect(const Str &s, int plus, int mode) { std::basic_string<C> w = widen<C>(s); QL *q = 0; int n = -1; int rc = A::DissectQueryMallocEx(&q, &n, w.data(), w.data() + w.size(), plus, (UriBreakConversion)mode); Str r = fmt("rc=%d n=%d ", rc, n);
        if (rc == 0) { for (QL *x = q; x; x = x->next) { r += "(" + narrow<C>(x->key, x->key + std::char_traits<C>::length(x->key)) + "," + (x->value ? narrow<C>(x->value, x->value + std::char_traits<C>::length(x->value)) : Str("NULL")) + ")"; }
            int req = -1; int r2 = q ? A::ComposeQueryCharsRequiredEx(q, &req, plus, plus) : -1; r += fmt(" req=%d/%d", r2, req);
            if (q && req >= 0) { for (int cap : { 0, 1, req / 2, req, req + 1 }) { std::vector<C> buf((size_t)cap + 4, (C)0x55); int wr = -1; int c = A::ComposeQueryEx(buf.data(), q, cap, &wr, plus, plus); r += fmt("|%d:%d:%d:", cap, c, wr); if (c == 0) r += narrow<C>(buf.data(), buf.data() + std::char_traits<C>::length(buf.data())); }
                C *ms = 0; int c = A::ComposeQueryMallocEx(&ms, q, plus, !plus); r += fmt("|m%d:", c); if (c == 0) { r += narrow<C>(ms, ms + std::char_traits<C>::length(ms)); vf_lib_free(ms); } }
            A::FreeQueryList(q); }
        return r; }
    Str filename(const Str &s) { std::basic_string<C> w = widen<C>(s); Str r;
        for (int dir = 0; dir < 2; dir++) { std::vector<C> u(s.size() * 3 + 12, (C)0x55), f(s.size() * 3 + 14, (C)0x55); int rc = dir ? A::WindowsFilenameToUriString(w.c_str(), u.data()) : A::UnixFilenameToUriString(w.c_str(), u.data()); size_t n = std::char_traits<C>::length(u.data());
            int rc2 = dir ? A::UriStringToWindowsFilename(u.data(), f.data()) : A::UriStringToUnixFilename(u.data(), f.data()); r += fmt("%d:", rc) + narrow<C>(u.data(), u.data() + n) + fmt("|%d:", rc2) + narrow<C>(f.data(), f.data() + std::char_traits<C>::length(f.data())) + ";";
            int rc3 = dir ? A::UriStringToWindowsFilename(w.c_str(), f.data()) : A::UriStringToUnixFilename(w.c_str(), f.data()); r += fmt("%d:", rc3) + narrow<C>(f.data(), f.data() + std::char_traits<C>::length(f.data())) + ";"; }
        return r; }
};

struct Diff {
    Ctx &ctx; Local &lc; Obs<char> a; Obs<wchar_t> w;
    Diff(Ctx &c, Local &l) : ctx(c), lc(l) {}
    template <class FA, class FW> void cmp(const char *family, const Str &enc, FA fa, FW fw) {
        lc.cases++; lc.fam[family]++; ctx.progress++; int sig;
        if ((sig = GUARD_ENTER()) != 0) { ctx.violation("", Str(family) + "`" + enc, fmt("%s in one of the two APIs", signame(sig))); return; }
        SanWatch sw; Str x = fa(), y = fw(); GUARD_LEAVE();
        if (sw.tripped()) ctx.violation("", Str(family) + "`" + enc, "AddressSanitizer reported an invalid access in one of the two APIs");
        if (x != y) ctx.violation("", Str(family) + "`" + enc, "char API: " + x.substr(0, 400) + "  ||  wchar_t API (narrowed): " + y.substr(0, 400));
    }
    void parse(const Str &s) { cmp("parse", s, [&] { return a.parse(s); }, [&] { return w.parse(s); }); }
    void tostring(const Str &s) { cmp("tostring", s, [&] { return a.tostring(s); }, [&] { return w.tostring(s); }); }
    void two(const Str &s, const Str &b, int what, int p) { cmp(what == 0 ? "resolve" : what == 1 ? "shorten" : "equals", s + "`" + b + fmt("`%d", p), [&] { return a.two(s, b, what, p); }, [&] { return w.two(s, b, what, p); }); }
    void normalize(const Str &s, unsigned m, int o) { cmp("normalize", s + fmt("`%u`%d", m, o), [&] { return a.normalize(s, m, o); }, [&] { return w.normalize(s, m, o); }); }
    void escape(const Str &s, int p, int n) { cmp("escape", s + fmt("`%d`%d", p, n), [&] { return a.escape(s, p, n); }, [&] { return w.escape(s, p, n); }); }
    void unescape(const Str &s, int p, int m) { cmp("unescape", s + fmt("`%d`%d", p, m), [&] { return a.unescape(s, p, m); }, [&] { return w.unescape(s, p, m); }); }
    void dissect(const Str &s, int p, int m) { cmp("query", s + fmt("`%d`%d", p, m), [&] { return a.dissect(s, p, m); }, [&] { return w.dissect(s, p, m); }); }
    void filename(const Str &s) { cmp("filename", s, [&] { return a.filename(s); }, [&] { return w.filename(s); }); }
};


// One component of 2^29 characters (2 GiB of wchar_t): a byte count kept in an int is wrong in the wide API only.  Text in address space
// obtained with mmap; both APIs parse it, take ownership, and must report the same codes and the same (complete) copy.
#include <sys/mman.h>
template <class C> static Str giant_owner_obs(size_t n) {
    typedef Api<C> A; size_t bytes = (n + 1) * sizeof(C); C *t = (C *)mmap(0, bytes, PROT_READ | PROT_WRITE, MAP_PRIVATE | MAP_ANONYMOUS | MAP_NORESERVE, -1, 0); if (t == (C *)MAP_FAILED) return "no memory for the test text";
    for (size_t i = 0; i < n; i++) t[i] = (C)'x'; t[8] = (C)'/'; t[n] = 0;
    typename A::Uri u; const C *err = 0; int rc = A::ParseSingleUriEx(&u, t, t + n, &err); Str r = fmt("parse=%d", rc);
    if (rc == URI_SUCCESS) {
        int ro = A::MakeOwner(&u); r += fmt(" makeOwner=%d owner=%d", ro, (int)u.owner);
        if (ro == URI_SUCCESS) { size_t k = 0; for (auto *sg = u.pathHead; sg; sg = sg->next, k++) { size_t len = (size_t)(sg->text.afterLast - sg->text.first); bool outside = sg->text.first < t || sg->text.first >= t + n;
            r += fmt(" seg%zu[len=%zu copy=%d first=%c last=%c]", k, len, (int)outside, len ? (char)sg->text.first[0] : '-', len ? (char)sg->text.afterLast[-1] : '-'); } }
        A::FreeUriMembers(&u);
    }
    munmap(t, bytes); return r;
}

// One query key of n characters (no value): required size of the composed text in both APIs.  The INT_MAX guards count characters; a guard that
// counts bytes refuses in the wide API what the char API accepts.
template <class C> static Str giant_key_obs(size_t n, int plus, int nb) {
    typedef Api<C> A; size_t bytes = (n + 1) * sizeof(C); C *t = (C *)mmap(0, bytes, PROT_READ | PROT_WRITE, MAP_PRIVATE | MAP_ANONYMOUS | MAP_NORESERVE, -1, 0); if (t == (C *)MAP_FAILED) return "no memory for the test text";
    for (size_t i = 0; i < n; i++) t[i] = (C)'k'; t[n] = 0;
    typename A::QList item; item.key = t; item.value = 0; item.next = 0; int req = -7; int rc = A::ComposeQueryCharsRequiredEx(&item, &req, plus, nb);
    Str r = fmt("rc=%d", rc) + (rc == URI_SUCCESS ? fmt(" req=%d", req) : Str());
    // the allocating variant with a manager that only records what it is asked for and refuses: the request, counted in characters, is the same in both APIs
    if (rc == URI_SUCCESS) { struct Rec { UriMemoryManager mm; size_t asked; int calls; } rec; rec.asked = 0; rec.calls = 0; rec.mm.userData = &rec;
        rec.mm.malloc = [](UriMemoryManager *m, size_t n) -> void * { Rec *q = (Rec *)m->userData; q->asked = n; q->calls++; errno = ENOMEM; return (void *)0; };
        rec.mm.calloc = [](UriMemoryManager *m, size_t a, size_t b) -> void * { Rec *q = (Rec *)m->userData; q->asked = (b && a > (size_t)-1 / b) ? (size_t)-1 : a * b; q->calls++; errno = ENOMEM; return (void *)0; };
        rec.mm.realloc = [](UriMemoryManager *m, void *, size_t n) -> void * { Rec *q = (Rec *)m->userData; q->asked = n; q->calls++; return (void *)0; };
        rec.mm.reallocarray = [](UriMemoryManager *m, void *, size_t a, size_t b) -> void * { Rec *q = (Rec *)m->userData; q->asked = a * b; q->calls++; return (void *)0; };
        rec.mm.free = [](UriMemoryManager *, void *) {};
        C *out = 0; int rc2 = A::ComposeQueryMallocExMm(&out, &item, plus, nb, &rec.mm);
        r += fmt(" malloc-variant rc=%d calls=%d asked_chars=%zu rest=%zu", rc2, rec.calls, rec.asked / sizeof(C), rec.asked % sizeof(C)); }
    munmap(t, bytes); return r;
}
void run(Ctx &ctx) {
    Local lc; Diff d(ctx, lc); bool q = ctx.quick(); int sz = ctx.secondary ? 0 : q ? 1 : 2;
    brute_force_classes(ctx, ctx.secondary ? 3 : q ? 5 : 6, [&](const char *s, int n, int) { d.parse(Str(s, n)); });
    ip6_product(ctx, ctx.secondary ? 3 : 6, 4, [&](const Str &s) { d.parse(s); });
    uint64_t idx = 0;
    std::vector<Str> shape = shape_list(sz == 2 ? 1 : 0), refs = resolve_refs(sz == 0 ? 1 : sz == 1 ? 2 : 3, sz == 2), bases = resolve_bases(true), norm = norm_corpus(sz == 2 ? 1 : 0);
    for (auto &s : shape) if (ctx.mine(idx++)) { d.tostring(s); for (auto &t : { "s://h/a", "s:/a", "S://H/a", "s://h/a?q" }) d.two(s, t, 2, 0); }
    // near-identical URIs: components of equal length that differ only in their last character (a comparison that looks at
    // bytes instead of characters, or at a prefix, tells them apart in one API and not in the other)
    {
        std::vector<Str> fam; const char *parts[][2] = { { "abcd", "abcx" }, { "user1", "user2" }, { "example.com", "example.org" }, { "8080", "8081" }, { "path1", "path2" }, { "file1", "file2" }, { "query1", "query2" }, { "frag1", "frag2" } };
        for (int v = -1; v < 8; v++) { const char *c[8]; for (int i = 0; i < 8; i++) c[i] = parts[i][i == v ? 1 : 0]; fam.push_back(Str(c[0]) + "://" + c[1] + "@" + c[2] + ":" + c[3] + "/" + c[4] + "/" + c[5] + "?" + c[6] + "#" + c[7]); }
        fam.push_back("abcd://[v1.abcd]/path1"); fam.push_back("abcd://[v1.abcx]/path1"); fam.push_back("abcd://[::ab:cd]/path1/file1"); fam.push_back("abcd://[::ab:ce]/path1/file1"); fam.push_back("abcd:path1/file1"); fam.push_back("abcd:path1/file2");
        for (auto &x : fam) for (auto &y : fam) { if (!ctx.mine(idx++)) continue; d.two(x, y, 2, 0); d.two(x, y, 1, 0); d.two(x, y, 1, 1); d.two(x, y, 0, 1); d.two(x, y, 0, 0); }
    }
    for (auto &r : refs) { if (ctx.expired()) break; if (!ctx.mine(idx++)) continue; for (size_t bi = 0; bi < bases.size(); bi += (sz == 2 ? 1 : 4)) { d.two(r, bases[bi], 0, 0); d.two(r, bases[bi], 0, 1); } }
    for (auto &s : shape) { if (ctx.expired()) break; if (!ctx.mine(idx++)) continue; for (auto &b : { "s://h/a/b?q", "s:/a/b", "s:a", "t://g", "a" }) { d.two(s, b, 1, 0); d.two(s, b, 1, 1); d.two(b, s, 1, 0); } }
    // reference creation over path-token sequences (segments with a colon, empty segments, shared directories): the guards that look
    // inside a segment (':' scan, emptiness) run on characters in one API and must not run on bytes in the other
    { std::vector<Str> tk = { "", "a", "b", "c:d", "long-segment:with-colon", "..", "." }; std::vector<Str> ab = path_token_paths(tk, sz == 0 ? 2 : 3, 1);
      for (auto &p0 : ab) for (auto pre : { "s:", "s://h" }) { if (!ctx.mine(idx++)) continue; if (ctx.expired()) break; Str src = Str(pre) + p0; if (!ref::is_uri_reference(src)) continue;
          for (auto b0 : { "/a/b", "/a/", "/", "/a/c:d/x", "/b" }) { Str bs = Str(pre) + b0; d.two(src, bs, 1, 0); d.two(src, bs, 1, 1); } } }
    for (auto &s : norm) { if (ctx.expired()) break; if (!ctx.mine(idx++)) continue; for (unsigned m : { 63u, 8u, 4u, 1u, 2u, 48u, 0u }) for (int o = 0; o < 2; o++) d.normalize(s, m, o); }
    for (int c = 1; c < 256; c++) { Str x(1, (char)c); for (int p = 0; p < 2; p++) for (int n = 0; n < 2; n++) { if (!ctx.mine((uint64_t)c)) continue; d.escape(x, p, n); d.escape("a" + x + "b", p, n); } d.filename("/" + x); d.filename("C:\\" + x); }   // every byte value: char is signed, wchar_t is not
    all_strings(ctx, Str("a +%\r\n\xff~", 8), ctx.secondary ? 3 : q ? 4 : 5, [&](const Str &s) { for (int p = 0; p < 2; p++) for (int n = 0; n < 2; n++) d.escape(s, p, n); });
    all_strings(ctx, Str("%0aAdg+\r\n", 9), ctx.secondary ? 3 : q ? 5 : 6, [&](const Str &s) { for (int p = 0; p < 2; p++) for (int m = 0; m < 4; m++) d.unescape(s, p, m); });
    all_strings(ctx, "&=a+%41", ctx.secondary ? 3 : q ? 5 : 6, [&](const Str &s) { d.dissect(s, 1, URI_BR_DONT_TOUCH); d.dissect(s, 0, URI_BR_TO_CRLF); });
    // stretch family through normalisation (copies sized from the decoded length, buffers handed back): long components, borrowed and owned
    { std::vector<Str> st = stretch_list(0); uint64_t si = 0; for (auto &x : st) { if (!ctx.mine(si++) || ctx.expired()) continue; if (x.size() > 5000 || !ref::is_uri_reference(x)) continue; d.normalize(x, 63, 0); d.normalize(x, 63, 1); } }
    // stretch family for the query functions: items of a repeated unit, lengths around the powers of two (a buffer sized in bytes where characters are meant)
    { uint64_t si = 0; for (const char *u : { "a", "%26", "&a=", "+", "%0A" }) for (int n : stretch_lengths(ctx.secondary ? 0 : 1)) { if (n > 1100 || !ctx.mine(si++) || ctx.expired()) continue; Str x; for (int i = 0; i < n; i++) x += u;
          d.dissect(x, 1, URI_BR_DONT_TOUCH); d.dissect("k=" + x, 0, URI_BR_TO_CRLF); } }
    all_strings(ctx, Str("aC:/\\ %#\xff", 9), ctx.secondary ? 3 : q ? 4 : 5, [&](const Str &s) { d.filename(s); d.filename("file:" + s); d.filename("file://" + s); });
    if (!ctx.secondary && ctx.worker == 1 % ctx.nworkers) {       // one after the other on one worker: at most 1.8 GB at a time
        static const struct { size_t n; int nb; } GK[] = { { (size_t)INT_MAX / 24 + 1, 1 }, { (size_t)INT_MAX / 12 + 1, 0 }, { (size_t)INT_MAX / 6 - 1, 1 }, { (size_t)INT_MAX / 6, 1 } };
        for (auto &g : GK) { size_t n = g.n; int nb = g.nb; d.cmp("giantkey", fmt("%zu`%d", n, nb), [&] { return giant_key_obs<char>(n, 0, nb); }, [&] { return giant_key_obs<wchar_t>(n, 0, nb); }); } }
    if (ctx.worker == 0 && !ctx.secondary) d.cmp("giantowner", "29", [&] { return giant_owner_obs<char>(((size_t)1 << 29) + 16); }, [&] { return giant_owner_obs<wchar_t>(((size_t)1 << 29) + 16); });
    ctx.st.count("evaluations", lc.cases); for (auto &kv : lc.fam) ctx.st.count("family_" + kv.first, kv.second);
    if (ctx.worker == 0) { ctx.st.sample("parse '//[1:2::3' : rc, error offset, every component offset, host bytes - char vs wchar_t"); ctx.st.sample("tostring 's://u@h:1/a?q#f' with every capacity 0..len+2"); ctx.st.sample("query 'a=%41&&=+' : dissect, charsRequired, compose at 5 capacities, composeMalloc"); }
}
void replay(Ctx &ctx, const Str &enc) {
    std::vector<Str> p = split(enc, '`'); Local lc; Diff d(ctx, lc); if (p.size() < 2) return; const Str &f = p[0];
    auto I = [&](size_t i) { return i < p.size() ? atoi(p[i].c_str()) : 0; };
    if (f == "giantkey" && p.size() >= 3) { size_t n = strtoull(p[1].c_str(), 0, 10); int nb = I(2); d.cmp("giantkey", fmt("%zu`%d", n, nb), [&] { return giant_key_obs<char>(n, 0, nb); }, [&] { return giant_key_obs<wchar_t>(n, 0, nb); }); return; }
    if (f == "giantowner") { d.cmp("giantowner", "29", [&] { return giant_owner_obs<char>(((size_t)1 << 29) + 16); }, [&] { return giant_owner_obs<wchar_t>(((size_t)1 << 29) + 16); }); return; }
    if (f == "parse") d.parse(p[1]); else if (f == "tostring") d.tostring(p[1]); else if (f == "resolve" && p.size() >= 4) d.two(p[1], p[2], 0, I(3)); else if (f == "shorten" && p.size() >= 4) d.two(p[1], p[2], 1, I(3)); else if (f == "equals" && p.size() >= 4) d.two(p[1], p[2], 2, I(3));
    else if (f == "normalize") d.normalize(p[1], (unsigned)I(2), I(3)); else if (f == "escape") d.escape(p[1], I(2), I(3)); else if (f == "unescape") d.unescape(p[1], I(2), I(3)); else if (f == "query") d.dissect(p[1], I(2), I(3)); else if (f == "filename") d.filename(p[1]);
}
Str coverage(const Ctx &, const Stats &st) {
    Str per; uint64_t fams = 0; for (auto &kv : st.counters) if (kv.first.compare(0, 7, "family_") == 0) { per += jkv(kv.first, kv.second) + ", "; fams++; }
    return jkv("evaluations", st.get("evaluations")) + ", " + jkv("distinct_nontrivial", st.get("evaluations")) + ", " + per + jkv("function_families", fams) + ", " +
           jkvs("rule", "cases = one input run through the char function and its wchar_t counterpart; the complete observation (return codes, error offsets, component offsets and texts, host bytes, flags, recomposed text at every capacity, required sizes, charsWritten, list contents, item counts, masks, returned pointers as offsets) is rendered to text after narrowing and must be identical. Inputs: class-alphabet brute force and IPv6 product (parse, both entry styles), shape product (tostring with every capacity, equals, shorten in both modes and both roles), reference x base product (resolve, both options), normalisation corpus x 7 masks x borrowed/owned (incl. mask query and makeOwner), all strings over escape / unescape / query / filename alphabets up to a length bound. Every case is distinct by construction, so distinct_nontrivial = evaluations.") + ", " + jsamples(st);
}
Check chk = { "C19", "exploration", run, replay, coverage, "inputs are code points 1..255; wchar_t is 32 bit" };
REGISTER_CHECK(chk);
}
