// C05 - uriToString never writes beyond the caller's capacity; charsRequired / charsWritten are exact.
#include "../core.h"
#include "fixture.h"
#include "../mm.h"
#include "corpus.h"

namespace {
struct Local { uint64_t objects = 0, calls = 0, too_small = 0, fits = 0; std::set<Str> cuts; };

// which piece of the recomposed text the offset falls into (for the non-vacuity counter)
static Str piece_at(const ref::RUri &r, int off, int len) {
    if (off >= len) return "end";
    if (r.scheme.present && off < (int)r.scheme.text.size()) return "scheme"; if (r.scheme.present && off == (int)r.scheme.text.size()) return "scheme-colon";
    if (r.has_authority) {
        int a = r.scheme.present ? (int)r.scheme.text.size() + 1 : 0; if (off < a + 2) return "slashes";
        if (r.userinfo.present) { if (off < r.userinfo.off + (int)r.userinfo.text.size()) return "userinfo"; if (off == r.userinfo.off + (int)r.userinfo.text.size()) return "at"; }
        int hend = r.host.off + (int)r.host.text.size() + ((r.hostkind == ref::HK_IP6 || r.hostkind == ref::HK_FUTURE) ? 1 : 0);
        if (off < hend) return fmt("host%d%s", r.hostkind, off == r.host.off - 1 ? "-open" : off == hend - 1 && r.hostkind >= ref::HK_IP6 ? "-close" : "");
        if (r.port.present) { if (off == r.port.off - 1) return "port-colon"; if (off < r.port.off + (int)r.port.text.size()) return "port"; }
    }
    if (off >= r.path_off && off < r.path_off + (int)r.path.size()) return r.path[off - r.path_off] == '/' ? "path-slash" : "segment";
    if (r.query.present) { if (off == r.query.off - 1) return "question"; if (off < r.query.off + (int)r.query.text.size()) return "query"; }
    if (r.fragment.present) { if (off == r.fragment.off - 1) return "hash"; return "fragment"; }
    return "other";
}

static inline bool near_pow2(int c) { for (int p = 4; p > 0 && p <= (1 << 30); p <<= 1) { if (c >= p - 1 && c <= p + 1) return true; if (p > c + 1) break; } return false; }

template <class C> struct Runner {
    typedef Api<C> A; typedef typename A::Uri Uri;
    OutBuf ob; Ledger led; Ctx *ctx; Local *lc;
    Runner(Ctx *c, Local *l, size_t pages = 8) : ob(pages), ctx(c), lc(l) {}
    static Str enc(const Str &how, int cap, int cw) { return how + "`" + fmt("%d`%d`%s", cap, cw, A::name()); }
    // all capacities for one object; `how` describes how it was made (replayable)
    void object(const Str &how, const Uri &u, int only_cap = -1000, int only_cw = -1) {
        lc->objects++;
        int need = -5; int rc = A::ToStringCharsRequired(&u, &need);
        if (rc != URI_SUCCESS || need < 0 || (size_t)need + 80 > ob.bytes / sizeof(C)) { ctx->violation("", enc(how, 0, 0), fmt("ToStringCharsRequired rc=%d value=%d", rc, need)); return; }
        // reference text: written with ample room
        std::vector<C> big((size_t)need + 16, (C)0x55); int w0 = -5;
        rc = A::ToString(big.data(), &u, need + 16, &w0);
        size_t len = 0; while (len < big.size() && big[len]) len++;
        if (rc != URI_SUCCESS) { ctx->violation("", enc(how, need + 16, 1), fmt("ToString with ample room failed rc=%d", rc)); return; }
        if ((int)len != need) { ctx->violation("", enc(how, need + 16, 1), fmt("charsRequired=%d but the text has %zu characters", need, len)); return; }
        Str text = narrow<C>(big.data(), big.data() + len); ref::RUri r; bool have_r = ref::decompose(text, r);
        for (int cap = -1; cap <= need + 2; cap++) for (int cw = 0; cw < 2; cw++) {
            if ((only_cap != -1000 && cap != only_cap) || (only_cw >= 0 && cw != only_cw)) continue;
            // long objects (stretch family): the capacities at both ends, around the middle and around every power of two
            if (need > 700 && cap > 3 && cap < need - 3 && !(cap >= need / 2 && cap <= need / 2 + 1) && !near_pow2(cap)) continue;
            lc->calls++; ctx->progress++;
            size_t room = cap > 0 ? (size_t)cap : 0;
            C *dst = (C *)ob.end_minus(room * sizeof(C), 0xC3, 64);      // dst + cap is the first byte of a PROT_NONE page
            int written = -7; int sig; Str what;
            if ((sig = GUARD_ENTER()) == 0) {
                rc = A::ToString(dst, &u, cap, cw ? &written : 0); GUARD_LEAVE();
                if (cap >= need + 1) {
                    lc->fits++;
                    if (rc != URI_SUCCESS) what = fmt("capacity %d >= required %d + 1 but rc=%d", cap, need, rc);
                    else if (cw && written != need + 1) what = fmt("charsWritten=%d, expected %d", written, need + 1);
                    else if (dst[need] != 0) what = "no terminator at position len";
                    else if (memcmp(dst, big.data(), (size_t)need * sizeof(C)) != 0) what = "text differs from the one written with ample room";
                } else {
                    lc->too_small++; if (have_r && cap >= 1) lc->cuts.insert(piece_at(r, cap - 1, need));
                    if (rc != URI_ERROR_TOSTRING_TOO_LONG) what = fmt("capacity %d < required %d + 1 but rc=%d", cap, need, rc);
                    else if (cw && written != 0) what = fmt("charsWritten=%d on failure, expected 0", written);
                    else if (cap >= 1 && dst[0] != 0) what = "destination is not an empty string after failure";
                }
                // bytes in front of the buffer must be untouched
                const unsigned char *pre = (const unsigned char *)dst - 64; for (int i = 0; i < 64 && what.empty(); i++) if (pre[i] != 0xC3) what = "wrote in front of the destination";
            } else what = fmt("%s: wrote beyond the stated capacity (or crashed)", signame(sig));
            if (!what.empty()) ctx->violation("", enc(how, cap, cw), what);
        }
    }
    // makes the objects for one corpus text and visits them
    void run_text(const Str &t, const Str &only_how = "", int only_cap = -1000, int only_cw = -1) {
        std::basic_string<C> w = widen<C>(t), bt = widen<C>("s://u@h:1/a/b?bq"); const C *ep; Uri u, n, b, d, e; bool okb;
        // more bases for the resolved / shortened objects: ones that share the authority (or the lack of one) with the shape product's URIs
        static const char *MORE[] = { "s://h/x?bq", "s://h", "s:/a", "s:a/b", "S://[::1]:80/a/../b" };
        if (A::ParseSingleUriEx(&u, w.data(), w.data() + w.size(), &ep) != URI_SUCCESS) { ctx->harness_error("corpus text does not parse: " + t); return; }
        okb = A::ParseSingleUriEx(&b, bt.data(), bt.data() + bt.size(), &ep) == URI_SUCCESS;
        auto visit = [&](const char *kind, const Uri &x) { Str how = Str(kind) + ":" + t; if (only_how.empty() || only_how == how) object(how, x, only_cap, only_cw); };
        visit("parsed", u);
        if (A::ParseSingleUriEx(&n, w.data(), w.data() + w.size(), &ep) == URI_SUCCESS) { if (A::NormalizeSyntax(&n) == URI_SUCCESS) visit("normalized", n); A::FreeUriMembers(&n); }
        // objects left behind by an in-place operation that ran out of memory (the caller may still write them out before freeing them)
        for (int mask : { 63, 23 }) for (uint64_t k = 1; k <= 12; k++) {
            Uri f; led.reset(); if (A::ParseSingleUriExMm(&f, w.data(), w.data() + w.size(), &ep, &led.mm) != URI_SUCCESS) { A::FreeUriMembersMm(&f, &led.mm); break; }
            led.n_requests = 0; led.fail_at = k; int rcn = A::NormalizeSyntaxExMm(&f, (unsigned)mask, &led.mm); bool consumed = led.n_failed > 0; led.clear_injection();
            if (rcn == URI_ERROR_MALLOC) { Str kind = fmt("oomnorm%d.%llu", mask, (unsigned long long)k); visit(kind.c_str(), f); }
            A::FreeUriMembersMm(&f, &led.mm); if (!consumed) break;
        }
        led.reset();
        if (okb && A::AddBaseUri(&d, &u, &b) == URI_SUCCESS) { visit("resolved", d); A::FreeUriMembers(&d); }
        if (okb && u.scheme.first && A::RemoveBaseUri(&e, &u, &b, URI_FALSE) == URI_SUCCESS) { visit("shortened", e); A::FreeUriMembers(&e); }
        for (int bi = 0; bi < 5; bi++) { std::basic_string<C> mt = widen<C>(MORE[bi]); Uri mb, md, me; if (A::ParseSingleUriEx(&mb, mt.data(), mt.data() + mt.size(), &ep) != URI_SUCCESS) { A::FreeUriMembers(&mb); continue; }
            if (A::AddBaseUri(&md, &u, &mb) == URI_SUCCESS) { visit(fmt("resolved%d", bi).c_str(), md); } A::FreeUriMembers(&md);
            for (int dr = 0; dr < 2; dr++) { if (u.scheme.first && A::RemoveBaseUri(&me, &u, &mb, dr) == URI_SUCCESS) visit(fmt("shortened%d.%d", bi, dr).c_str(), me); A::FreeUriMembers(&me); }
            A::FreeUriMembers(&mb); }
        A::FreeUriMembers(&u); if (okb) A::FreeUriMembers(&b);
    }
};
void run(Ctx &ctx) {
    Local lc; Runner<char> ra(&ctx, &lc); Runner<wchar_t> rw(&ctx, &lc);
    std::vector<Str> corpus = shape_list(ctx.secondary ? 0 : ctx.quick() ? 1 : 2);
    for (size_t i = 0; i < corpus.size(); i++) { if (!ctx.mine(i)) continue; if (ctx.expired()) break; SanWatch sw; ra.run_text(corpus[i]); rw.run_text(corpus[i]); if (sw.tripped()) ctx.violation("", "parsed:" + corpus[i] + "`0`0`A", "AddressSanitizer reported an invalid access"); }
    { Runner<char> sa(&ctx, &lc, 160); Runner<wchar_t> sw2(&ctx, &lc, 160); std::vector<Str> st = stretch_list(ctx.secondary || ctx.quick() ? 0 : 1);
      for (size_t i = 0; i < st.size(); i++) { if (!ctx.mine(i)) continue; if (ctx.expired()) break; sa.run_text(st[i]); sw2.run_text(st[i]); ctx.st.count("stretch_family"); } }
    ctx.st.count("evaluations", lc.calls); ctx.st.count("objects", lc.objects); ctx.st.count("capacity_too_small", lc.too_small); ctx.st.count("capacity_sufficient", lc.fits);
    for (auto &s : lc.cuts) ctx.st.distinct("cut_pieces", s);
    if (ctx.worker == 0) { ctx.st.count("corpus", corpus.size()); ctx.st.sample("parsed:s://u:p@[A:b::1.2.3.4]:80/a/b?q#f capacity=17 charsWritten!=NULL"); ctx.st.sample("resolved:../a capacity=-1"); }
}
void replay(Ctx &ctx, const Str &enc) {
    std::vector<Str> p = split(enc, '`'); if (p.size() != 4) return; Local lc; size_t c = p[0].find(':'); if (c == Str::npos) return;
    if (p[3] == "A") { Runner<char> r(&ctx, &lc, 160); r.run_text(p[0].substr(c + 1), p[0], atoi(p[1].c_str()), atoi(p[2].c_str())); } else { Runner<wchar_t> r(&ctx, &lc, 160); r.run_text(p[0].substr(c + 1), p[0], atoi(p[1].c_str()), atoi(p[2].c_str())); }
}
Str coverage(const Ctx &, const Stats &st) {
    return jkv("evaluations", st.get("evaluations")) + ", " + jkv("distinct_nontrivial", st.get("capacity_too_small")) + ", " +
           jkvs("rule", "cases = (URI object, capacity, charsWritten NULL or not, char type): objects are every URI of the shape product as parsed, after full normalisation, after resolution against a base and after reference creation; capacity takes EVERY value from -1 to required+2; the destination is placed so that dest+capacity is the first byte of an inaccessible page, so one character too many faults. distinct_nontrivial = calls with a capacity smaller than required+1 (each a distinct (object, capacity, flag) triple by construction); cut_piece_kinds = distinct kinds of text piece in which the capacity ended.") + ", " +
           jkv("objects", st.get("objects")) + ", " + jkv("corpus_texts", st.get("corpus")) + ", " + jkv("capacity_too_small", st.get("capacity_too_small")) + ", " + jkv("capacity_sufficient", st.get("capacity_sufficient")) + ", " + jkv("cut_piece_kinds", st.nset("cut_pieces")) + ", " + jkv("stretch_family_texts", st.get("stretch_family")) + ", " + jsamples(st);
}
Check chk = { "C05", "exploration", run, replay, coverage, "the text written with ample room is the reference for the same object (its correctness is the subject of C04/C06/C08)|sizes near INT_MAX are outside the enumerated space" };
REGISTER_CHECK(chk);
}
