// C14 - any allocation failure is reported cleanly: fault enumeration over every allocation index of every call.
#include "scenario.h"

namespace {
struct Local { uint64_t specs = 0, runs = 0, faults_consumed = 0, faults_unreached = 0, max_allocs = 0, retries = 0, chain_runs = 0; uint64_t per_kind[K_NKINDS] = {0}; };

template <class C> struct Runner {
    Ctx *ctx; Local *lc; ArenaMM ro; Mem led, libc, comp;   // comp: the manager completed by the library from a malloc/free-only backend (its calloc / realloc are the library's emulations)
    Runner(Ctx *c, Local *l) : ctx(c), lc(l), ro(64), led(0), libc(1), comp(2) {}
    Mem &pick(int mk) { return mk == 2 ? comp : mk ? libc : led; }
    static Str enc(const ScnSpec &s, int memkind, uint64_t a, uint64_t b, uint64_t from) { return s.enc() + fmt("`%d`%llu`%llu`%llu`%s", memkind, (unsigned long long)a, (unsigned long long)b, (unsigned long long)from, Api<C>::name()); }
    // one execution with the given injection; returns false on violation. n_out receives the request count.
    Str content0;     // result_content of the undisturbed run of the scenario in hand
    bool exec(const ScnSpec &sp, Mem &mem, uint64_t at, uint64_t at2, uint64_t from, int *rc0, Str *key0, uint64_t *n_out) {
        lc->runs++; ctx->progress++; mem.reset();
        Scenario<C> sc(sp, &mem, &ro); Str e = enc(sp, mem.kind, at, at2, from); int sig; Str what; SanWatch sw;
        if ((sig = GUARD_ENTER()) != 0) { ctx->violation("", e, fmt("%s (crash, touch of released memory, or write to a read-only input) in %s", signame(sig), sp.show().c_str())); mem.reset(); return false; }
        if (!sc.setup()) { GUARD_LEAVE(); ctx->harness_error("scenario setup failed: " + sp.show()); return false; }
        long before = mem.outstanding(); (void)before;
        mem.arm(at, at2, from);
        int rc = sc.call();
        uint64_t failed = mem.failed(), nreq = mem.requests(); mem.disarm();
        if (n_out) *n_out = nreq;
        Str key = sc.result_key(rc);
        bool injected = at || at2 || from;
        if (failed > 0) { lc->faults_consumed++; if (rc != URI_ERROR_MALLOC) what = fmt("%llu allocation request(s) failed but the call returned %d instead of URI_ERROR_MALLOC", (unsigned long long)failed, rc); }
        else if (injected) { lc->faults_unreached++; if (rc0 && (rc != *rc0 || key != *key0)) what = "no failure was consumed, yet the result differs from the undisturbed run"; }
        else { if (rc0) *rc0 = rc; if (key0) *key0 = key; content0 = sc.result_content(rc); }
        // retry: after a reported failure the very same call, on the very same objects, must go through and give what the undisturbed
        // run gave (an in-place operation may have been applied in part; nothing may have been corrupted)
        if (what.empty() && failed > 0 && rc == URI_ERROR_MALLOC && rc0 && sp.kind != K_DISSECT && sp.kind != K_COMPOSE) {
            int rc2 = sc.call(); Str c2 = sc.result_content(rc2); lc->retries++;
            // (an in-place operation may legitimately have dropped the components it had already copied - uriNormalizeSyntax does -, so
            //  for those only the return code is compared; calls with read-only inputs and a fresh output must reproduce the result)
            bool in_place = sp.kind == K_NORMALIZE || sp.kind == K_MAKEOWNER;
            if (rc2 != *rc0 || (!in_place && c2 != content0)) what = fmt("after the failure the same call was repeated without any failure: rc=%d result '%s', the undisturbed run gave rc=%d '%s'", rc2, esc(c2).c_str(), *rc0, esc(content0).c_str());
            rc = rc2;
        }
        uint64_t f_before = mem.frees();
        if (what.empty()) what = sc.inputs_changed();
        sc.cleanup(rc);
        if (what.empty() && mem.outstanding() != 0) what = fmt("%ld block(s) still allocated after the caller's ordinary cleanup (rc=%d)", mem.outstanding(), rc);
        (void)f_before; uint64_t f1 = mem.frees();
        sc.cleanup_again();
        if (what.empty() && mem.frees() != f1) what = "freeing the URI members again released more memory";
        if (what.empty() && !mem.misuse().empty()) what = "allocator misuse: " + mem.misuse();
        if (what.empty() && !mem.bypass().empty()) what = mem.bypass();
        GUARD_LEAVE();
        if (what.empty() && sw.tripped()) what = "AddressSanitizer reported an invalid access (released memory touched?)";
        if (!what.empty()) { ctx->violation("", e, what + " in " + sp.show() + fmt(" [fail at %llu, %llu, from %llu of %llu requests]", (unsigned long long)at, (unsigned long long)at2, (unsigned long long)from, (unsigned long long)nreq)); mem.reset(); return false; }
        return true;
    }
    // operation chains under faults: parse, normalize in place, resolve, normalize the result, create a reference from it, make that
    // one owner - with the k-th allocation of the WHOLE chain failing (once / from k on).  Steps after a failing one still run, on
    // whatever the failing step left behind: an object that is inconsistent after a failure shows in the next call or in the ledger.
    struct ChainOut { int rc[5]; uint64_t nreq; };
    bool chain_exec(const Str &t, const Str &bt, int m1, Mem &mem, uint64_t at, uint64_t from, ChainOut *base_out) {
        typedef Api<C> A; typedef typename A::Uri Uri; lc->runs++; lc->chain_runs++; ctx->progress++; mem.reset();
        Str e = "chain`" + t + "`" + bt + fmt("`%d`%d`%llu`%llu`%s", m1, mem.kind, (unsigned long long)at, (unsigned long long)from, A::name()); int sig; Str what; SanWatch sw;
        if ((sig = GUARD_ENTER()) != 0) { ctx->violation("", e, fmt("%s in an operation chain under an allocation failure", signame(sig))); mem.reset(); return false; }
        UriMemoryManager *mm = mem.mm(); std::basic_string<C> w = widen<C>(t), bw = widen<C>(bt); const C *ep; Uri u, b, d, s2; memset(&d, 0, sizeof d); memset(&s2, 0, sizeof s2);
        bool ok = (mm ? A::ParseSingleUriExMm(&u, w.data(), w.data() + w.size(), &ep, mm) : A::ParseSingleUriEx(&u, w.data(), w.data() + w.size(), &ep)) == URI_SUCCESS;
        ok = (mm ? A::ParseSingleUriExMm(&b, bw.data(), bw.data() + bw.size(), &ep, mm) : A::ParseSingleUriEx(&b, bw.data(), bw.data() + bw.size(), &ep)) == URI_SUCCESS && ok;
        ChainOut o; memset(&o, 0, sizeof o);
        if (ok) {
            Str bkey = observe<C>(b).key();
            mem.arm(at, 0, from); uint64_t f0;
            auto step = [&](int i, int rc) { o.rc[i] = rc; uint64_t f1 = mem.failed(); if (what.empty() && f1 != f0 && rc != URI_ERROR_MALLOC) what = fmt("step %d consumed a failing allocation but returned %d", i, rc); if (what.empty() && f1 == f0 && rc == URI_ERROR_MALLOC) what = fmt("step %d returned URI_ERROR_MALLOC without a failing allocation", i); };
            f0 = mem.failed(); step(0, mm ? A::NormalizeSyntaxExMm(&u, (unsigned)m1, mm) : A::NormalizeSyntaxEx(&u, (unsigned)m1));
            f0 = mem.failed(); step(1, mm ? A::AddBaseUriExMm(&d, &u, &b, URI_RESOLVE_STRICTLY, mm) : A::AddBaseUri(&d, &u, &b));
            f0 = mem.failed(); step(2, mm ? A::NormalizeSyntaxExMm(&d, 63, mm) : A::NormalizeSyntax(&d));
            f0 = mem.failed(); step(3, mm ? A::RemoveBaseUriMm(&s2, &d, &b, URI_FALSE, mm) : A::RemoveBaseUri(&s2, &d, &b, URI_FALSE));
            f0 = mem.failed(); step(4, mm ? A::MakeOwnerMm(&s2, mm) : A::MakeOwner(&s2));
            o.nreq = mem.requests(); mem.disarm();
            // every object, whatever happened to it, must still be writable with exact sizes (C05 on post-failure objects)
            for (Uri *x : { &u, &d, &s2 }) { int need = -1; if (A::ToStringCharsRequired(x, &need) == URI_SUCCESS && need >= 0) { std::vector<C> buf((size_t)need + 2, (C)0x55); int wr = -1; int trc = A::ToString(buf.data(), x, need + 1, &wr); size_t len = 0; while (len < buf.size() && buf[len]) len++;
                if (what.empty() && (trc != URI_SUCCESS || (int)len != need || wr != need + 1)) what = fmt("an object of the chain recomposes inconsistently after the failure (rc %d, required %d, written %d, length %zu)", trc, need, wr, len); } }
            if (what.empty() && observe<C>(b).key() != bkey) what = "the base (read-only argument of two calls) changed";
            if (what.empty() && base_out && !at && !from) *base_out = o;
            if (what.empty() && base_out && (at || from) && mem.failed() == 0 && memcmp(o.rc, base_out->rc, sizeof o.rc) != 0) what = "no failure was consumed, yet the return codes differ from the undisturbed chain";
            if (mem.failed()) lc->faults_consumed++;
            if (mm) { A::FreeUriMembersMm(&s2, mm); A::FreeUriMembersMm(&d, mm); } else { A::FreeUriMembers(&s2); A::FreeUriMembers(&d); }
        }
        mem.disarm();
        if (mm) { A::FreeUriMembersMm(&u, mm); A::FreeUriMembersMm(&b, mm); } else { A::FreeUriMembers(&u); A::FreeUriMembers(&b); }
        if (what.empty() && mem.outstanding() != 0) what = fmt("%ld block(s) still allocated after freeing every URI of the chain", mem.outstanding());
        if (what.empty() && !mem.misuse().empty()) what = "allocator misuse: " + mem.misuse();
        if (what.empty() && !mem.bypass().empty()) what = mem.bypass();
        GUARD_LEAVE();
        if (what.empty() && sw.tripped()) what = "AddressSanitizer reported an invalid access";
        if (base_out && !at && !from) base_out->nreq = o.nreq;
        if (!what.empty()) { ctx->violation("", e, what + fmt(" [chain normalize(%d); resolve; normalize; shorten; makeOwner on '%s' with base '%s', rcs %d %d %d %d %d]", m1, esc(t).c_str(), esc(bt).c_str(), o.rc[0], o.rc[1], o.rc[2], o.rc[3], o.rc[4])); mem.reset(); return false; }
        return ok;
    }
    void run_chain(const Str &t, const Str &bt, int m1) {
        for (int mk = 0; mk < 3; mk++) { Mem &mem = pick(mk); ChainOut b0; memset(&b0, 0, sizeof b0);
            if (!chain_exec(t, bt, m1, mem, 0, 0, &b0)) continue;
            for (uint64_t k = 1; k <= b0.nreq; k++) { chain_exec(t, bt, m1, mem, k, 0, &b0); chain_exec(t, bt, m1, mem, 0, k, &b0); } }
    }
    void run_spec(const ScnSpec &sp, int only_mem = -1) {
        lc->specs++; lc->per_kind[sp.kind]++;
        for (int mk = 0; mk < 3; mk++) {
            if (only_mem >= 0 && mk != only_mem) continue;
            Mem &mem = pick(mk); int rc0 = 0; Str key0; uint64_t n = 0;
            if (sp.kind == K_PARSE && sp.p1 != 0 && mk != 1) continue;       // the custom-manager parse has one entry point
            if (!exec(sp, mem, 0, 0, 0, &rc0, &key0, &n)) continue;
            if (n > lc->max_allocs) lc->max_allocs = n;
            for (uint64_t k = 1; k <= n; k++) { exec(sp, mem, k, 0, 0, &rc0, &key0, 0); exec(sp, mem, 0, 0, k, &rc0, &key0, 0); }
            if (n <= 48 && mk != 2) for (uint64_t k1 = 1; k1 <= n; k1++) for (uint64_t k2 = k1 + 1; k2 <= n + 1; k2++) exec(sp, mem, k1, k2, 0, &rc0, &key0, 0);
        }
    }
};

// The completed manager's own entry points under a failing backend (the library's callers may use them like any allocator): a request that
// fails must leave the caller's block alone, report ENOMEM-style failure by returning NULL, and everything can still be freed exactly once.
static void direct_case(Ctx &ctx, Local &lc, int op, int fail_k) {
    Mem mem(2); UriMemoryManager *mm = mem.mm(); Str enc = fmt("direct`%d`%d`0`0`0`0`0`A", op, fail_k); int sig; lc.runs++; ctx.progress++;
    if ((sig = GUARD_ENTER()) != 0) { ctx.violation("", enc, fmt("%s in a direct call on the completed manager with a failing backend", signame(sig))); return; }
    Str what; char *p = (char *)mm->malloc(mm, 24); if (p) memset(p, 0x5C, 24);
    mem.arm((uint64_t)fail_k, 0, 0); void *q = 0;
    switch (op) { case 0: q = mm->realloc(mm, p, 4096); break; case 1: q = mm->reallocarray(mm, p, 64, 64); break; case 2: q = mm->calloc(mm, 16, 16); break; case 3: q = mm->malloc(mm, 100); break; case 4: q = mm->realloc(mm, 0, 100); break; }
    bool failed = mem.failed() > 0; mem.disarm();
    if (failed && q) what = "the backend refused the request but the call returned a block";
    if (!failed && !q) what = "the call failed although the backend served every request";
    if (what.empty() && p && (op > 1 || !q)) for (int i = 0; i < 24; i++) if (p[i] != 0x5C) { what = "the caller's block was changed by a call that failed / did not concern it"; break; }
    if (op <= 1) { if (q) mm->free(mm, q); else if (p) mm->free(mm, p); } else { if (q) mm->free(mm, q); if (p) mm->free(mm, p); }
    GUARD_LEAVE();
    if (what.empty()) what = mem.misuse(); if (what.empty() && mem.outstanding() != 0) what = fmt("%ld backend block(s) outstanding after everything was freed", mem.outstanding());
    if (!what.empty()) ctx.violation("", enc, "completed manager, " + Str(op == 0 ? "realloc(p, 4096)" : op == 1 ? "reallocarray(p, 64, 64)" : op == 2 ? "calloc(16, 16)" : op == 3 ? "malloc(100)" : "realloc(NULL, 100)") + fmt(" with backend request %d failing: ", fail_k) + what);
}
void run(Ctx &ctx) {
    Local lc; Runner<char> ra(&ctx, &lc); Runner<wchar_t> rw(&ctx, &lc);
    std::vector<ScnSpec> specs = scenario_specs(ctx.secondary ? 0 : ctx.quick() ? 2 : 3);
    for (size_t i = 0; i < specs.size(); i++) { if (!ctx.mine(i)) continue; if (ctx.expired()) break; ra.run_spec(specs[i]); rw.run_spec(specs[i]); }
    {   // chains
        std::vector<Str> ts = { "a/./b/../c?q#f", "S://U%41@H:80/%7e/./A/../b?Q%41#%2f", "//[::1]:8/a/..//b", "../x/./y", "s:a/../b:c", "/.//a", "//1.2.3.4/a/b/..", "s://[vF.X]/%2e/x", "?q", "", "a/../b:c/d/..", "t://g/x" };
        std::vector<Str> bs = { "s://u@[::1]:1/a/./b/../c/d?bq", "s:/a/b", "s:a/b/c", "s://1.2.3.4" }; uint64_t ci = 0;
        if (ctx.secondary) { ts.resize(4); bs.resize(2); }
        for (auto &t : ts) for (auto &b : bs) for (int m1 : { 8, 63, 55 }) { if (!ctx.mine(ci++) || ctx.expired()) continue; ra.run_chain(t, b, m1); rw.run_chain(t, b, m1); }
    }
    if (ctx.worker == 0) for (int op = 0; op < 5; op++) for (int k = 0; k <= 2; k++) direct_case(ctx, lc, op, k);
    ctx.st.count("evaluations", lc.runs); ctx.st.count("chain_executions", lc.chain_runs); ctx.st.count("scenarios", lc.specs); ctx.st.count("faults_consumed", lc.faults_consumed); ctx.st.count("faults_not_reached", lc.faults_unreached); ctx.st.count("retries_after_failure", lc.retries);
    for (int k = 0; k < K_NKINDS; k++) ctx.st.count(Str("scenarios_") + SCN_NAMES[k], lc.per_kind[k]);
    ctx.st.distinct("max_allocs", fmt("%llu", (unsigned long long)lc.max_allocs));
    if (ctx.worker == 0) { ctx.st.count("universe", specs.size()); ctx.st.sample("normalize(a/b/c, mask 8, borrowed) ledger manager: allocation 2 fails once"); ctx.st.sample("resolve(../../x, s://u@[::1]:1/) libc: allocations 3 and 5 fail"); ctx.st.sample("dissectQuery(a=&b) custom manager: every request from 4 on fails"); }
}
void replay(Ctx &ctx, const Str &enc) {
    std::vector<Str> p = split(enc, '`');
    if (p.size() >= 3 && p[0] == "direct") { Local l3; direct_case(ctx, l3, atoi(p[1].c_str()), atoi(p[2].c_str())); return; }
    if (p.size() == 8 && p[0] == "chain") { Local lc2; int m1 = atoi(p[3].c_str()), mk = atoi(p[4].c_str()); uint64_t at = strtoull(p[5].c_str(), 0, 10), from = strtoull(p[6].c_str(), 0, 10);
        if (p[7] == "A") { Runner<char> r(&ctx, &lc2); typename Runner<char>::ChainOut b0; memset(&b0, 0, sizeof b0); Mem &m = r.pick(mk); if (r.chain_exec(p[1], p[2], m1, m, 0, 0, &b0) && (at || from)) r.chain_exec(p[1], p[2], m1, m, at, from, &b0); }
        else { Runner<wchar_t> r(&ctx, &lc2); typename Runner<wchar_t>::ChainOut b0; memset(&b0, 0, sizeof b0); Mem &m = r.pick(mk); if (r.chain_exec(p[1], p[2], m1, m, 0, 0, &b0) && (at || from)) r.chain_exec(p[1], p[2], m1, m, at, from, &b0); }
        return; }
    ScnSpec sp; if (p.size() != 10 || !ScnSpec::dec(p, 0, sp)) return; Local lc; int mk = atoi(p[5].c_str());
    uint64_t a = strtoull(p[6].c_str(), 0, 10), b = strtoull(p[7].c_str(), 0, 10), f = strtoull(p[8].c_str(), 0, 10);
    if (p[9] == "A") { Runner<char> r(&ctx, &lc); int rc0; Str k0; Mem &m = r.pick(mk); if (r.exec(sp, m, 0, 0, 0, &rc0, &k0, 0)) r.exec(sp, m, a, b, f, &rc0, &k0, 0); }
    else { Runner<wchar_t> r(&ctx, &lc); int rc0; Str k0; Mem &m = r.pick(mk); if (r.exec(sp, m, 0, 0, 0, &rc0, &k0, 0)) r.exec(sp, m, a, b, f, &rc0, &k0, 0); }
}
Str coverage(const Ctx &, const Stats &st) {
    uint64_t mx = 0; auto it = st.sets.find("max_allocs"); if (it != st.sets.end()) for (auto &s : it->second) mx = std::max<uint64_t>(mx, strtoull(s.c_str(), 0, 10));
    Str per; for (int k = 0; k < K_NKINDS; k++) per += jkv(Str("scenarios_") + SCN_NAMES[k], st.get(Str("scenarios_") + SCN_NAMES[k])) + ", ";
    return jkv("evaluations", st.get("evaluations")) + ", " + jkv("distinct_nontrivial", st.get("faults_consumed")) + ", " +
           jkvs("rule", "cases = (call with inputs, allocator, char type, fault set): calls are parse (3 entry points), makeOwner, normalize (8 masks, borrowed and owned), resolve (2 options), shorten (2 modes), dissectQuery, composeQueryMalloc over the scenario universe; allocator is a ledger manager, libc itself (NULL manager, failures injected in the interposed malloc/calloc/realloc) or - for the single-failure and from-k-on sets - the manager that uriCompleteMemoryManager builds over a malloc/free-only ledger backend (so that a failing request reaches the library's own calloc / realloc emulation); a counting run gives n requests, then EVERY k in 1..n fails once, EVERY k fails together with all later requests, and EVERY pair k1<k2 fails (deviation bound 2, n <= 48). Oracle: URI_ERROR_MALLOC whenever a failure was consumed, identical result otherwise, no crash, no block outstanding after the caller's ordinary cleanup, no invalid/double free, repeated free harmless, inputs in PROT_READ memory. distinct_nontrivial = executions in which at least one injected failure was actually consumed.") + ", " +
           jkv("scenarios", st.get("scenarios")) + ", " + jkv("scenario_universe", st.get("universe")) + ", " + per + jkv("faults_consumed", st.get("faults_consumed")) + ", " + jkv("faults_not_reached", st.get("faults_not_reached")) + ", " + jkv("operation_chain_executions_under_faults", st.get("chain_executions")) + ", " + jkv("retries_after_failure_compared", st.get("retries_after_failure")) + ", " + jkv("max_requests_in_one_call", mx) + ", " + jsamples(st);
}
Check chk = { "C14", "fault_enumeration", run, replay, coverage, "touching released memory is only visible in the sanitizer pass (ASan) - the plain pass poisons released blocks but hands them back to libc|deviation bound: two independent failures, or one failure with all later ones" };
REGISTER_CHECK(chk);
}
