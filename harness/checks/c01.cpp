// C01 - the parser accepts exactly L(URI-reference) and reports the error position the statement defines.
// Model: minimal DFA of the RFC 3986 grammar (183 states).  Every transition of the model is replayed
// on the real parser (W-method test set), plus depth-bounded brute force and structured IP products.
#include "../core.h"
#include "../plat.h"
#include "../mm.h"
#include "../obs.h"
#include "parse_sets.h"
#include "corpus.h"

namespace {

struct Local {
    uint64_t strings = 0, calls = 0, accepted = 0, rejected = 0;
    uint8_t state_seen[DFA_NSTATES] = { 0 };
    uint8_t off_seen[160] = { 0 };
    uint64_t inbracket_rejects = 0, bracket_rule_used = 0;
};

template <class C> struct Runner {
    FenceBuf fb; Ledger led; Local *lc; Ctx *ctx;
    Runner(Ctx *c, Local *l, size_t pages = 4) : fb(pages), lc(l), ctx(c) {}

    Str encode(const C *s, int n) {
        bool wide = false; for (int i = 0; i < n; i++) if ((unsigned long)(typename std::make_unsigned<C>::type)s[i] > 255) wide = true;
        if (!wide) return "b:" + narrow<C>(s, s + n);
        Str e = "w:"; for (int i = 0; i < n; i++) e += fmt("%s%lx", i ? "," : "", (unsigned long)(typename std::make_unsigned<C>::type)s[i]);
        return e;
    }
    void judge(const char *entry, int rc, const C *errPos, const C *first, int n, const DfaRun &d, const C *orig, int orig_n) {
        lc->calls++;
        const char *bad = 0; long off = -1;
        if (d.accept) { if (rc != URI_SUCCESS) bad = "rejected a string of the language"; }
        else {
            if (rc == URI_SUCCESS) bad = "accepted a string outside the language";
            else if (rc != URI_ERROR_SYNTAX) bad = "wrong error code for a syntax error";
            else if (errPos == 0) bad = "NULL error position";
            else {
                off = (long)(errPos - first);
                if (off < 0 || off > n) bad = "error position outside the input";
                else if (off != d.lvp) {
                    bool ok = false;
                    if (d.bracket_open >= 0) {
                        int lit_end = n; for (int i = d.lvp; i < n; i++) if (first[i] == (C)']') { lit_end = i; break; }
                        if (off >= d.bracket_open && off <= lit_end) { ok = true; lc->bracket_rule_used++; }
                    }
                    if (!ok) bad = "error position is not the first character without valid completion";
                }
                if (off >= 0 && off < 160) lc->off_seen[off] = 1;
            }
        }
        if (bad) ctx->violation("", encode(orig, orig_n), fmt("%s entry=%s type=%s rc=%d errOff=%ld expected=%s lvp=%d", bad, entry, Api<C>::name(), rc, off, d.accept ? "accept" : "reject", d.lvp));
    }

    // run every entry point on s[0..n)
    void run(const C *s, int n, bool bulk) {
        typedef Api<C> A; typedef typename A::Uri Uri; typedef typename A::State State;
        ctx->progress++;
        DfaRun d = dfa_run<C>(s, n);
        lc->strings++; lc->state_seen[d.state] = 1; if (d.accept) lc->accepted++; else lc->rejected++;
        if (!d.accept && d.bracket_open >= 0) lc->inbracket_rejects++;
        int sig;
        if ((sig = GUARD_ENTER()) == 0) {
            const C *p = (const C *)fb.put_end(s, (size_t)n * sizeof(C));
            { Uri u; memset(&u, 0xEE, sizeof u); const C *ep = 0; int rc = A::ParseSingleUriEx(&u, p, p + n, &ep); judge("ParseSingleUriEx", rc, ep, p, n, d, s, n); A::FreeUriMembers(&u); }
            if (!bulk) {
                { Uri u; memset(&u, 0xEE, sizeof u); State st; memset(&st, 0xEE, sizeof st); st.uri = &u; int rc = A::ParseUriEx(&st, p, p + n);
                  if (rc != st.errorCode) ctx->violation("", encode(s, n), fmt("ParseUriEx return value %d differs from state.errorCode %d", rc, st.errorCode));
                  judge("ParseUriEx", rc, rc ? st.errorPos : 0, p, n, d, s, n); A::FreeUriMembers(&u); }
                { Uri u; memset(&u, 0xEE, sizeof u); const C *ep = 0; led.clear_injection(); int rc = A::ParseSingleUriExMm(&u, p, p + n, &ep, &led.mm); judge("ParseSingleUriExMm", rc, ep, p, n, d, s, n); A::FreeUriMembersMm(&u, &led.mm);
                  if (!led.live.empty() || !led.errors.empty()) { ctx->violation("", encode(s, n), "custom manager: blocks outstanding or misuse after parse+free"); led.reset(); } }
                // NUL-terminated entry points see the text up to the first NUL
                int n0 = 0; while (n0 < n && s[n0] != 0) n0++;
                DfaRun d0 = n0 == n ? d : dfa_run<C>(s, n0);
                std::basic_string<C> z(s, s + n0); z.push_back((C)0);
                const C *q = (const C *)fb.put_end(z.data(), z.size() * sizeof(C));
                { Uri u; memset(&u, 0xEE, sizeof u); const C *ep = 0; int rc = A::ParseSingleUri(&u, q, &ep); judge("ParseSingleUri", rc, ep, q, n0, d0, s, n); A::FreeUriMembers(&u); }
                { Uri u; memset(&u, 0xEE, sizeof u); const C *ep = 0; int rc = A::ParseSingleUriEx(&u, q, 0, &ep); judge("ParseSingleUriEx(afterLast=NULL)", rc, ep, q, n0, d0, s, n); A::FreeUriMembers(&u); }
                { Uri u; memset(&u, 0xEE, sizeof u); State st; memset(&st, 0xEE, sizeof st); st.uri = &u; int rc = A::ParseUri(&st, q); judge("ParseUri", rc, rc ? st.errorPos : 0, q, n0, d0, s, n); A::FreeUriMembers(&u); }
                { Uri u; memset(&u, 0xEE, sizeof u); int rc = A::ParseSingleUri(&u, q, 0); lc->calls++;
                  if ((rc == URI_SUCCESS) != d0.accept || (rc != URI_SUCCESS && rc != URI_ERROR_SYNTAX)) ctx->violation("", encode(s, n), fmt("ParseSingleUri(errorPos=NULL) rc=%d expected=%s type=%s", rc, d0.accept ? "accept" : "reject", Api<C>::name()));
                  A::FreeUriMembers(&u); }
            }
            GUARD_LEAVE();
        } else {
            ctx->violation("", encode(s, n), fmt("%s while parsing (type=%s)", signame(sig), Api<C>::name()));
            led.reset();
        }
    }
};

struct Both {
    Local lc; Runner<char> ra; Runner<wchar_t> rw; std::vector<wchar_t> wbuf;
    Both(Ctx &ctx, size_t pages = 4) : ra(&ctx, &lc, pages), rw(&ctx, &lc, pages), wbuf(256) {}
    void run(const char *s, int n, bool bulk) {
        ra.run(s, n, bulk);
        if ((size_t)n > wbuf.size()) wbuf.resize(n);
        for (int i = 0; i < n; i++) wbuf[i] = (wchar_t)(unsigned char)s[i];
        rw.run(wbuf.data(), n, bulk);
    }
};

static const unsigned long WIDE_EXTRAS[8] = { 0x100, 0x141, 0x161, 0x12F, 0x10041, 0x7FFFFFFF, 0x80000041ul, 0xFFFFFFFFul };

void finish(Ctx &ctx, Local &lc) {
    ctx.st.count("evaluations", lc.strings * 2); ctx.st.count("parser_calls", lc.calls);
    ctx.st.count("accepted", lc.accepted); ctx.st.count("rejected", lc.rejected);
    ctx.st.count("rejects_inside_bracket", lc.inbracket_rejects); ctx.st.count("bracket_rule_used", lc.bracket_rule_used);
    for (int q = 0; q < DFA_NSTATES; q++) if (lc.state_seen[q]) ctx.st.distinct("final_states", fmt("%d", q));
    for (int i = 0; i < 160; i++) if (lc.off_seen[i]) ctx.st.distinct("error_offsets", fmt("%d", i));
}

void run(Ctx &ctx) {
    Both b(ctx); SetSizes z = parse_set_sizes(ctx, 1);
    uint64_t n_w = 0, n_bf = 0, n_ip = 0, n_fut = 0, n_oct = 0, n_wide = 0, nontrivial = 0;
    // (a) W-method set
    w_method_set(ctx, z.k, [&](const char *s, int n, int part) { b.run(s, n, part == 1); n_w++; });
    // (d) wide extras at every transition-cover position: access(q) . X . w
    if (!ctx.expired()) {
        uint64_t item = 0; wchar_t wb[160];
        for (int q = 0; q < DFA_NSTATES && !ctx.expired(); q++) {
            if (q == DFA_DEAD) continue;
            if (!ctx.mine(item++)) continue;
            int al = (int)strlen(DFA_ACCESS[q]);
            for (int i = 0; i < al; i++) wb[i] = (wchar_t)(unsigned char)DFA_ACCESS[q][i];
            // the eight fixed extras, then for every byte class a code point above 255 whose low byte (and one whose low 16 bits) is the
            // class representative: a narrowing cast anywhere on the way to a character test would take it for that character
            for (int x = 0; x < 8 + 2 * DFA_NCLASSES; x++) {
                wb[al] = x < 8 ? (wchar_t)WIDE_EXTRAS[x] : (wchar_t)((x - 8) & 1 ? 0x30000ul | (unsigned char)DFA_CLASS_REP[(x - 8) / 2] : 0x100ul | (unsigned char)DFA_CLASS_REP[(x - 8) / 2]);
                for (int w = -1; w < DFA_NW; w++) {
                    int l2 = al + 1;
                    if (w >= 0) for (const char *p = DFA_W[w]; *p; p++) wb[l2++] = (wchar_t)(unsigned char)*p;
                    b.rw.run(wb, l2, false); n_wide++;
                }
            }
        }
    }
    // (b) class brute force
    brute_force_classes(ctx, z.L, [&](const char *s, int n, int q) { b.run(s, n, false); n_bf++; if (q != DFA_DEAD && n > 0) nontrivial++; });
    // (c) structured products
    ip6_product(ctx, z.ip_groups3, z.ip_groups4, [&](const Str &s) { b.run(s.data(), (int)s.size(), false); n_ip++; });
    ipfuture_product(ctx, z.fut_len, [&](const Str &s) { b.run(s.data(), (int)s.size(), false); n_fut++; });
    if (z.octets) octet_product(ctx, [&](const Str &s) { b.run(s.data(), (int)s.size(), false); n_oct++; });
    if (z.octets) { octet_sweep(ctx, [&](const Str &s) { b.run(s.data(), (int)s.size(), false); n_oct++; }); hexgroup_sweep(ctx, [&](const Str &s) { b.run(s.data(), (int)s.size(), false); n_oct++; }); dotted_family(ctx, [&](const Str &s) { b.run(s.data(), (int)s.size(), false); n_oct++; }); userinfo_ip_family(ctx, [&](const Str &s) { b.run(s.data(), (int)s.size(), false); n_oct++; }); }
    // (e) the stretch family: every component blown up to lengths around powers of two, alone, with an illegal character at the
    //     end, with a truncated escape at the end and with an illegal character in the middle (error offsets far from the start)
    uint64_t n_stretch = 0;
    if (!ctx.expired()) {
        Both bs(ctx, 520); uint64_t idx = 0;
        stretch_family(ctx.secondary ? 0 : ctx.quick() ? 1 : 2, [&](const Str &s) {
            if (!ctx.mine(idx++) || ctx.expired()) return;
            Str v[4] = { s, s + "[", s + "%4", s.substr(0, s.size() / 2) + "\x7f" + s.substr(s.size() / 2) };
            for (auto &x : v) { bs.run(x.data(), (int)x.size(), false); n_stretch++; }
        });
        for (int q = 0; q < DFA_NSTATES; q++) if (bs.lc.state_seen[q]) b.lc.state_seen[q] = 1;
        b.lc.strings += bs.lc.strings; b.lc.calls += bs.lc.calls; b.lc.accepted += bs.lc.accepted; b.lc.rejected += bs.lc.rejected; b.lc.inbracket_rejects += bs.lc.inbracket_rejects; b.lc.bracket_rule_used += bs.lc.bracket_rule_used;
    }
    ctx.st.count("set_stretch", n_stretch);
    finish(ctx, b.lc);
    ctx.st.count("set_wmethod", n_w); ctx.st.count("set_bruteforce", n_bf); ctx.st.count("set_ip6_product", n_ip);
    ctx.st.count("set_ipfuture", n_fut); ctx.st.count("set_octets", n_oct); ctx.st.count("set_wide_extras", n_wide);
    ctx.st.count("bruteforce_viable_nonempty", nontrivial);
    ctx.st.count("param_k", ctx.worker == 0 ? z.k : 0); ctx.st.count("param_L", ctx.worker == 0 ? z.L : 0);
    if (ctx.worker == 0) { ctx.st.sample("//[1:2:3:4:5:6:7::8]x"); ctx.st.sample(Str(DFA_ACCESS[100]) + "%" + DFA_W[3]); ctx.st.sample("s://u@[0::aF9:1.2.3.4]:80/p"); }
}

void replay(Ctx &ctx, const Str &enc) {
    Both b(ctx, 520);
    if (enc.compare(0, 2, "b:") == 0) { Str s = enc.substr(2); b.run(s.data(), (int)s.size(), false); }
    else if (enc.compare(0, 2, "w:") == 0) {
        std::vector<wchar_t> w; for (auto &t : split(enc.substr(2), ',')) if (!t.empty()) w.push_back((wchar_t)strtoul(t.c_str(), 0, 16));
        b.rw.run(w.data(), (int)w.size(), false);
    }
}

Str coverage(const Ctx &ctx, const Stats &st) {
    (void)ctx;
    uint64_t tr = st.get("transitions_replayed");
    return jkv("states", DFA_NSTATES) + ", " + jkv("transitions", (uint64_t)(DFA_NSTATES - 1) * 256) + ", " +
           jkv("transitions_replayed_on_impl", tr) + ", " + jkv("traces_validated_against_impl", st.get("evaluations")) + ", " +
           jkv("evaluations", st.get("evaluations")) + ", " + jkv("parser_calls", st.get("parser_calls")) + ", " +
           jkv("distinct_nontrivial", st.get("bruteforce_viable_nonempty") + tr) + ", " +
           jkvs("rule", "cases = strings (each run as char and as wchar_t through the parse entry points). Enumerated: W-method set P.Sigma'^{<=k}.(W+eps) over the 183-state spec DFA (P = access(q).c for every live state q and every byte c), all class-representative strings up to length L over viable prefixes, IPv6/IPvFuture/dec-octet products, out-of-range wide code points at every state. distinct_nontrivial counts, conservatively, the distinct model transitions replayed plus the distinct non-empty viable brute-force strings (both distinct by construction); W-method strings that coincide are not double counted because they are not counted at all.") + ", " +
           jkv("k_extra_states", st.get("param_k")) + ", " + jkv("bruteforce_length", st.get("param_L")) + ", " +
           jkv("model_nfa_states", DFA_N_NFA) + ", " + jkv("model_subset_states", DFA_N_SUBSET) + ", " + jkv("byte_classes", DFA_NCLASSES) + ", " + jkv("characterisation_set", DFA_NW) + ", " +
           jkv("accepted", st.get("accepted")) + ", " + jkv("rejected", st.get("rejected")) + ", " +
           jkv("distinct_final_model_states_observed", st.nset("final_states")) + ", " + jkv("distinct_error_offsets_observed", st.nset("error_offsets")) + ", " +
           jkv("rejects_inside_bracket", st.get("rejects_inside_bracket")) + ", " + jkv("bracket_rule_used", st.get("bracket_rule_used")) + ", " +
           jkv("set_wmethod", st.get("set_wmethod")) + ", " + jkv("set_bruteforce", st.get("set_bruteforce")) + ", " + jkv("set_ip6_product", st.get("set_ip6_product")) + ", " +
           jkv("set_ipfuture", st.get("set_ipfuture")) + ", " + jkv("set_octets", st.get("set_octets")) + ", " + jkv("set_wide_extras", st.get("set_wide_extras")) + ", " + jkv("set_stretch_family", st.get("set_stretch")) + ", " + jsamples(st);
}

Check chk = { "C01", "model_checking", run, replay, coverage,
              "spec/rfc3986.abnf is a faithful transcription of RFC 3986 Appendix A (cross-checked against a second hand-written recogniser and doc/rfc3986_grammar_only.txt at setup)|W-method completeness holds for implementations with at most 183+k states; middle symbols are class representatives|wchar_t is 32 bit" };
REGISTER_CHECK(chk);
}  // namespace
