// C04 - recomposition reproduces the parsed text (IPv6 literals in full lowercase eight-group form).
#include "../core.h"
#include "../plat.h"
#include "../mm.h"
#include "../obs.h"
#include "parse_sets.h"
#include "corpus.h"

namespace {
struct Local { uint64_t strings = 0, accepted = 0, roundtrips = 0, ip6 = 0, identical = 0; std::set<Str> shapes; };

template <class C> struct Runner {
    FenceBuf fb, fb2; OutBuf ob; Ctx *ctx; Local *lc;
    Runner(Ctx *c, Local *l, size_t pages = 4) : fb(pages), fb2(pages), ob(pages), ctx(c), lc(l) {}
    void bad(const Str &s, const Str &what) { ctx->violation("", s, what + fmt(" type=%s", Api<C>::name())); }
    // recompose into a buffer of exactly need+1 characters that ends at a guard page
    bool text_of(const Str &s8, const typename Api<C>::Uri &u, const Str &expect, const char *stage, std::basic_string<C> &out) {
        typedef Api<C> A; int need = -7;
        int rc = A::ToStringCharsRequired(&u, &need);
        if (rc != URI_SUCCESS) { bad(s8, fmt("ToStringCharsRequired failed with %d (%s)", rc, stage)); return false; }
        if (need != (int)expect.size()) { bad(s8, fmt("charsRequired=%d but the text has %zu characters (%s)", need, expect.size(), stage)); if (need < 0 || (size_t)need + 2 > ob.bytes / sizeof(C)) return false; }
        C *dst = (C *)ob.end_minus(((size_t)need + 1) * sizeof(C)); int written = -7;
        rc = A::ToString(dst, &u, need + 1, &written);
        if (rc != URI_SUCCESS) { bad(s8, fmt("ToString failed with %d given charsRequired+1 (%s)", rc, stage)); return false; }
        size_t len = 0; while (len <= (size_t)need && dst[len]) len++;
        out.assign(dst, dst + len);
        Str got = narrow<C>(out);
        if (got != expect) { bad(s8, fmt("recomposed text is '%s', expected '%s' (%s)", esc(got).c_str(), esc(expect).c_str(), stage)); return false; }
        if (written != need + 1) bad(s8, fmt("charsWritten=%d, expected %d (%s)", written, need + 1, stage));
        return true;
    }
    void run(const Str &s8, const ref::RUri &e, const Str &expect) {
        typedef Api<C> A; typedef typename A::Uri Uri; int sig; SanWatch sw;
        std::basic_string<C> s = widen<C>(s8); int n = (int)s.size();
        if ((sig = GUARD_ENTER()) == 0) {
            const C *p = (const C *)fb.put_end(s.data(), (size_t)n * sizeof(C));
            Uri u; const C *ep = 0; int rc = A::ParseSingleUriEx(&u, p, p + n, &ep);
            if (rc != URI_SUCCESS) { bad(s8, fmt("parse failed with %d", rc)); A::FreeUriMembers(&u); GUARD_LEAVE(); return; }
            std::basic_string<C> t1;
            if (text_of(s8, u, expect, "borrowed", t1)) {
                lc->roundtrips++;
                const C *p2 = (const C *)fb2.put_end(t1.data(), t1.size() * sizeof(C));
                Uri v; rc = A::ParseSingleUriEx(&v, p2, p2 + t1.size(), &ep);
                if (rc != URI_SUCCESS) bad(s8, fmt("the recomposed text does not parse (rc=%d)", rc));
                else {
                    if (!A::EqualsUri(&u, &v) || !A::EqualsUri(&v, &u)) {
                        // an IPv6 literal is re-spelled, everything else must be identical
                        bad(s8, "URI parsed from the recomposed text is not equal to the original");
                    }
                    UriObs o1 = observe<C>(u), o2 = observe<C>(v);
                    Str k1 = o1.content_key(), k2 = o2.content_key();
                    if (e.hostkind == ref::HK_IP6) { o1.host.text = o2.host.text = ""; k1 = o1.content_key(); k2 = o2.content_key(); }
                    if (k1 != k2) bad(s8, "components differ after parse-recompose-parse: " + k1 + " vs " + k2);
                    std::basic_string<C> t2;
                    if (text_of(s8, v, expect, "second generation", t2)) lc->identical++;
                }
                A::FreeUriMembers(&v);
            }
            // owned copy
            rc = A::MakeOwner(&u);
            if (rc != URI_SUCCESS) bad(s8, fmt("MakeOwner failed with %d", rc));
            else { std::basic_string<C> t3; text_of(s8, u, expect, "owned", t3); }
            A::FreeUriMembers(&u);
            GUARD_LEAVE();
            if (sw.tripped()) bad(s8, "AddressSanitizer reported an invalid access");
        } else bad(s8, fmt("%s during parse/recompose", signame(sig)));
    }
};
struct Both {
    Local lc; Runner<char> ra; Runner<wchar_t> rw; Ctx &ctx;
    Both(Ctx &c, size_t pages = 4) : ra(&c, &lc, pages), rw(&c, &lc, pages), ctx(c) {}
    void run(const char *s, int n) {
        ctx.progress++; lc.strings++;
        DfaRun d = dfa_run<char>(s, n); if (!d.accept) return;
        Str s8(s, n); ref::RUri e; if (!ref::decompose(s8, e)) { ctx.harness_error("reference recogniser rejects DFA-accepted " + esc(s8)); return; }
        Str expect = s8;
        if (e.hostkind == ref::HK_IP6) { expect = s8.substr(0, e.host.off) + ref::ipv6_full(e.ip) + s8.substr(e.host.off + e.host.text.size()); lc.ip6++; }
        if (ref::recompose(e) != expect) { ctx.harness_error("reference recomposition of " + esc(s8) + " gives " + esc(ref::recompose(e))); return; }
        lc.accepted++;
        if (lc.shapes.size() < 50000) lc.shapes.insert(fmt("%d%d%d%d%d%d%d%zu", e.scheme.present, e.has_authority, e.userinfo.present, e.hostkind, e.port.present, e.query.present, e.fragment.present, e.segments().size()));
        ra.run(s8, e, expect); rw.run(s8, e, expect);
    }
};
void run(Ctx &ctx) {
    Both b(ctx); SetSizes z = parse_set_sizes(ctx, 0);
    w_method_set(ctx, z.k, [&](const char *s, int n, int) { b.run(s, n); });
    brute_force_classes(ctx, z.L, [&](const char *s, int n, int) { b.run(s, n); });
    ip6_product(ctx, z.ip_groups3, z.ip_groups4, [&](const Str &s) { b.run(s.data(), (int)s.size()); });
    ipfuture_product(ctx, z.fut_len, [&](const Str &s) { b.run(s.data(), (int)s.size()); });
    if (z.octets) octet_product(ctx, [&](const Str &s) { b.run(s.data(), (int)s.size()); });
    if (z.octets) { octet_sweep(ctx, [&](const Str &s) { b.run(s.data(), (int)s.size()); }); hexgroup_sweep(ctx, [&](const Str &s) { b.run(s.data(), (int)s.size()); }); dotted_family(ctx, [&](const Str &s) { b.run(s.data(), (int)s.size()); }); userinfo_ip_family(ctx, [&](const Str &s) { b.run(s.data(), (int)s.size()); }); }
    uint64_t idx = 0;
    shape_product(ctx.secondary ? 0 : ctx.quick() ? 1 : 2, [&](const Str &s) { if (ctx.mine(idx++)) b.run(s.data(), (int)s.size()); });
    { Both bs(ctx, 520); uint64_t si = 0; stretch_family(ctx.secondary ? 0 : ctx.quick() ? 1 : 2, [&](const Str &s) { if (ctx.mine(si++) && !ctx.expired()) { bs.run(s.data(), (int)s.size()); ctx.st.count("stretch_family"); } });
      b.lc.strings += bs.lc.strings; b.lc.accepted += bs.lc.accepted; b.lc.roundtrips += bs.lc.roundtrips; b.lc.ip6 += bs.lc.ip6; b.lc.identical += bs.lc.identical; for (auto &x : bs.lc.shapes) b.lc.shapes.insert(x); }
    ctx.st.count("evaluations", b.lc.strings); ctx.st.count("accepted_strings", b.lc.accepted); ctx.st.count("roundtrips", b.lc.roundtrips); ctx.st.count("ip6_literals", b.lc.ip6);
    ctx.st.count("second_generation_identical", b.lc.identical);
    for (auto &s : b.lc.shapes) ctx.st.distinct("shapes", s);
    if (ctx.worker == 0) { ctx.st.sample("//[A:b::1.2.3.4]:80 -> //[000a:000b:0000:0000:0000:0000:0102:0304]:80"); ctx.st.sample("s://u:p@h:/a//b?#"); ctx.st.count("param_k", z.k); ctx.st.count("param_L", z.L); }
}
void replay(Ctx &ctx, const Str &enc) { Both b(ctx, 520); b.run(enc.data(), (int)enc.size()); }
Str coverage(const Ctx &, const Stats &st) {
    return jkv("states", DFA_NSTATES) + ", " + jkv("transitions", (uint64_t)(DFA_NSTATES - 1) * 256) + ", " + jkv("traces_validated_against_impl", st.get("roundtrips")) + ", " +
           jkv("evaluations", st.get("evaluations")) + ", " + jkv("distinct_nontrivial", st.nset("shapes")) + ", " +
           jkvs("rule", "cases = strings of the C01 sets and the shape product; every accepted string is parsed, recomposed into a buffer of exactly charsRequired+1 characters ending at a guard page, compared character for character with the input (IPv6 literal replaced by the reference's eight-group lowercase form), re-parsed, compared with uriEqualsUri and component-wise, recomposed again, and once more after uriMakeOwner; both character types. distinct_nontrivial = distinct component shapes among accepted strings.") + ", " +
           jkv("accepted_strings", st.get("accepted_strings")) + ", " + jkv("roundtrips", st.get("roundtrips")) + ", " + jkv("ip6_literals", st.get("ip6_literals")) + ", " + jkv("second_generation_identical", st.get("second_generation_identical")) + ", " +
           jkv("k_extra_states", st.get("param_k")) + ", " + jkv("bruteforce_length", st.get("param_L")) + ", " + jkv("stretch_family_strings", st.get("stretch_family")) + ", " + jsamples(st);
}
Check chk = { "C04", "model_checking", run, replay, coverage, "reference recomposition (RFC 3986 section 5.3) of the reference decomposition reproduces every accepted input (asserted on every case)" };
REGISTER_CHECK(chk);
}
