// The string sets shared by C01-C04: spec-automaton test sets, class brute force, structured products.
#pragma once
#include "../core.h"
#include "../gen.h"
#include "../dfa.h"

struct SetSizes { int k; int L; int ip_groups3; int ip_groups4; int fut_len; bool octets; };
static inline SetSizes parse_set_sizes(const Ctx &ctx, int scale /*0 = lighter (C02-C04), 1 = full (C01)*/) {
    SetSizes z;
    if (ctx.secondary) { z.k = 0; z.L = 4; z.ip_groups3 = 5; z.ip_groups4 = 3; z.fut_len = 4; z.octets = false; return z; }
    if (ctx.quick()) { z.k = scale ? 1 : 0; z.L = scale ? 6 : 5; z.ip_groups3 = 8; z.ip_groups4 = 5; z.fut_len = 5; z.octets = true; }
    else { z.k = scale ? 2 : 1; z.L = scale ? 7 : 6; z.ip_groups3 = 9; z.ip_groups4 = 7; z.fut_len = 6; z.octets = true; }
    z.L += ctx.bonus; z.fut_len += ctx.bonus;
    return z;
}

// T_k = P . Sigma'^{<=k} . (W u {eps}),  P = { access(q).c : q live, c in 0..255 }.
// visit(bytes, len, part) with part: 0 = whole T_1-or-lower string, 1 = string only in T_2 \ T_1 (bulk)
template <class F> void w_method_set(Ctx &ctx, int k, F visit) {
    char buf[128];
    uint64_t item = 0;
    for (int q = 0; q < DFA_NSTATES; q++) {
        if (q == DFA_DEAD) continue;
        for (int use2 = 0; use2 < 2; use2++) {
            const char *acc = use2 ? DFA_ACCESS2[q] : DFA_ACCESS[q];
            if (!acc) continue;
            int al = (int)strlen(acc);
            for (int c = 0; c < 256; c++) {
                if (!ctx.mine(item++)) continue;
                if (ctx.expired()) return;
                if (use2 && c != DFA_CLASS_REP[DFA_CLASS[c]]) continue;   // second access string: class representatives only
                memcpy(buf, acc, al); buf[al] = (char)c; int pl = al + 1;
                ctx.st.count(use2 ? "transitions_replayed_via_second_access" : "transitions_replayed");
                // middle: all class-representative strings of length 0..k
                int mid[4] = { 0, 0, 0, 0 };
                for (int ml = 0; ml <= k; ml++) {
                    uint64_t total = 1; for (int i = 0; i < ml; i++) total *= DFA_NCLASSES;
                    for (uint64_t m = 0; m < total; m++) {
                        uint64_t mm = m; for (int i = 0; i < ml; i++) { mid[i] = (int)(mm % DFA_NCLASSES); mm /= DFA_NCLASSES; }
                        int l2 = pl; for (int i = 0; i < ml; i++) buf[l2++] = (char)DFA_CLASS_REP[mid[i]];
                        visit((const char *)buf, l2, ml >= 2 ? 1 : 0);
                        for (int w = 0; w < DFA_NW; w++) {
                            int wl = (int)strlen(DFA_W[w]); memcpy(buf + l2, DFA_W[w], wl);
                            visit((const char *)buf, l2 + wl, ml >= 2 ? 1 : 0);
                        }
                    }
                }
            }
        }
    }
}

// IPv6 literal arrangements. tokens3 = {0, aF9, 12345}; tokens4 adds the empty group.
// For every group list of length <= G, every zipper placement (none, before group i for i in 0..g, and two zippers),
// every IPv4 tail, wrapped as //[...] and //[...]:80/p
template <class F> void ip6_product(Ctx &ctx, int G3, int G4, F visit) {
    static const char *tok[4] = { "0", "aF9", "12345", "" };
    static const char *tails[8] = { 0, "1.2.3.4", "255.255.255.255", "256.1.1.1", "01.2.3.4", "1.2.3", "1.2.3.4.5", "1.2.3." };
    uint64_t idx = 0; std::vector<int> g;
    auto emit = [&](const std::vector<int> &groups, int z1, int z2, const char *tail) {
        // z = position before which "::" is inserted instead of ":" (or at the end when z == size)
        Str s; int n = (int)groups.size();
        for (int i = 0; i < n; i++) {
            if (i == z1 || i == z2) s += (i == 0 ? "::" : "::");
            else if (i > 0) s += ":";
            s += tok[groups[i]];
        }
        if (z1 == n || z2 == n) s += "::";
        if (tail) { if (n > 0 && !(z1 == n || z2 == n)) s += ":"; s += tail; }
        Str a = "//[" + s + "]"; visit(a);
        Str b = "s://u@[" + s + "]:80/p"; visit(b);
    };
    for (int ntok = 3; ntok <= 4; ntok++) {
        int G = ntok == 3 ? G3 : G4;
        std::function<void()> rec = [&]() {
            if (ctx.expired()) return;
            bool has_empty = false; for (int x : g) if (x == 3) has_empty = true;
            if (ntok == 3 || has_empty) {
                if (ctx.mine(idx++)) {
                    int n = (int)g.size();
                    for (int t = 0; t < 8; t++) {
                        emit(g, -1, -1, tails[t]);
                        for (int z = 0; z <= n; z++) emit(g, z, -1, tails[t]);
                        if (n <= 4) for (int z = 0; z <= n; z++) for (int y = z + 1; y <= n; y++) emit(g, z, y, tails[t]);
                    }
                }
            }
            if ((int)g.size() >= G) return;
            for (int i = 0; i < ntok; i++) { g.push_back(i); rec(); g.pop_back(); }
        };
        rec();
    }
}

template <class F> void ipfuture_product(Ctx &ctx, int L, F visit) {
    all_strings(ctx, "v1g.:-%]/", L, [&](const Str &s) { visit("//[" + s); visit("//[" + s + "]"); visit("//[V" + s + "]"); });
}

// every octet value 0..300 (and the same with a leading zero) in every position of a dotted quad, as a host and inside an IPv6 literal:
// boundaries are in octet_product, this closes the ranges between them (a case label dropped from a digit switch hits some value)
template <class F> void octet_sweep(Ctx &ctx, F visit) {
    uint64_t idx = 0;
    for (int v = 0; v <= 300; v++) { if (!ctx.mine(idx++) || ctx.expired()) continue; Str n = fmt("%d", v);
        for (int pos = 0; pos < 4; pos++) { Str q; for (int i = 0; i < 4; i++) { if (i) q += "."; q += i == pos ? n : Str(i == 0 ? "1" : i == 1 ? "22" : i == 2 ? "133" : "4"); }
            visit("//" + q); visit("//u@" + q + ":8/p"); visit("//[::" + q + "]"); visit("//[1:2:3:4:5:6:" + q + "]"); if (v < 100) { Str z = q; size_t at = 0; for (int i = 0; i < pos; i++) at = z.find('.', at) + 1; z.insert(at, "0"); visit("//" + z); } } }
}
// every hexadecimal digit in every position of an IPv6 group, in both cases
template <class F> void hexgroup_sweep(Ctx &ctx, F visit) {
    uint64_t idx = 0; const char *HD = "0123456789abcdefABCDEF";
    for (const char *h = HD; *h; h++) { if (!ctx.mine(idx++) || ctx.expired()) continue;
        for (int pos = 0; pos < 4; pos++) { Str g = "1234"; g[pos] = *h; visit("//[" + g + "::]"); visit("//[::" + g + "]"); visit("//[1:2:3:" + g + ":5:6:7:8]"); visit("//[" + g.substr(pos) + "::1.2.3.4]"); } }
}
// dotted decimal texts of one to five parts (the quad rule is met by exactly four), with and without a trailing dot, where the host is the last
// thing in the text and where something follows: the IPv4-or-registered-name decision looks ahead, and must not look beyond the text
template <class F> void dotted_family(Ctx &ctx, F visit) {
    static const char *oc[] = { "0", "25", "255", "256" }; uint64_t idx = 0;
    for (int k = 1; k <= 5; k++) { int total = 1; for (int i = 0; i < k; i++) total *= 4;
        for (int code = 0; code < total; code++) { if (!ctx.mine(idx++) || ctx.expired()) continue; Str h; int c = code; for (int i = 0; i < k; i++) { if (i) h += "."; h += oc[c & 3]; c >>= 2; }
            for (auto tail : { "", "." }) { Str t = h + tail; visit("//" + t); visit("//u@" + t); visit("//" + t + ":1"); visit("//" + t + "/"); visit("s://u@" + t + "?q"); } } }
}
// user information that reads like an IPv4 address or like "host:port" until a later character decides otherwise, in front of every host kind:
// whatever the parser built for the first reading has to be taken back (no stale port range, no address block left behind)
template <class F> void userinfo_ip_family(Ctx &ctx, F visit) {
    uint64_t idx = 0;
    for (auto ui : { "1.2.3.4", "1.2.3.4:", "1.2.3.4:21", "1.2.3.4:%41", "1.2.3.4:21%41", "1.2.3.4:x", "u:12%34", ":%41", "u:1", "1.2.3.4:21:", "255.255.255.255:0%30" })
        for (auto h : { "h", "5.6.7.8", "[::1]", "[v1.a]", "", "1.2.3" }) for (auto tail : { "", ":8", "/p", ":", "?q" }) { if (!ctx.mine(idx++) || ctx.expired()) continue; visit(Str("//") + ui + "@" + h + tail); visit(Str("s://") + ui + "@" + h + tail); }
}
template <class F> void octet_product(Ctx &ctx, F visit) {
    static const char *oc[22] = { "0", "9", "10", "99", "100", "199", "200", "249", "250", "255", "256", "260", "300", "00", "01", "1a", "", "19", "20", "25", "26", "29" };
    uint64_t idx = 0;
    for (int a = 0; a < 22; a++) for (int b = 0; b < 22; b++) {
        if (!ctx.mine(idx++)) continue;
        if (ctx.expired()) return;
        for (int c = 0; c < 22; c++) for (int d = 0; d < 22; d++) {
            Str h = Str(oc[a]) + "." + oc[b] + "." + oc[c] + "." + oc[d];
            visit("//" + h); visit("//u@" + h + ":80"); visit("//" + h + "@x"); visit("//[::" + h + "]"); visit("//[1:2:3:4:5:6:" + h + "]");
        }
    }
}
