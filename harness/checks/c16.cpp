// C16 - percent-escaping is lossless, bounded and safe in place.
#include "../core.h"
#include "../plat.h"
#include "../obs.h"
#include "../gen.h"
#include "checks/corpus.h"

namespace {
struct Local { uint64_t esc_cases = 0, unesc_cases = 0, roundtrips = 0, shrunk = 0, malformed = 0, breaks = 0; };

static Str ref_escape(const Str &s, bool plus, bool nb) {
    static const char *HX = "0123456789ABCDEF"; Str o;
    for (size_t i = 0; i < s.size(); i++) {
        unsigned char c = (unsigned char)s[i];
        if (ref::is_unreserved(c)) o += (char)c;
        else if (c == ' ' && plus) o += '+';
        else if (nb && (c == 13 || c == 10)) { if (c == 13 && i + 1 < s.size() && s[i + 1] == 10) i++; o += "%0D%0A"; }
        else { o += '%'; o += HX[c >> 4]; o += HX[c & 15]; }
    }
    return o;
}
static Str breaks_to_crlf(const Str &s) { Str o; for (size_t i = 0; i < s.size(); i++) { if (s[i] == 13) { if (i + 1 < s.size() && s[i + 1] == 10) i++; o += "\r\n"; } else if (s[i] == 10) o += "\r\n"; else o += s[i]; } return o; }
static Str ref_unescape(const Str &s, bool plus, int mode, uint64_t *malformed, uint64_t *breaks) {
    Str o; bool prev_cr = false;
    for (size_t i = 0; i < s.size();) {
        if (s[i] == '%' && i + 2 < s.size() + 0 && ref::is_hex((unsigned char)s[i + 1]) && i + 2 <= s.size() - 1 && ref::is_hex((unsigned char)s[i + 2])) {
            int code = ref::hexval((unsigned char)s[i + 1]) * 16 + ref::hexval((unsigned char)s[i + 2]);
            if (code == 10) { (*breaks)++; if (mode == URI_BR_DONT_TOUCH) o += '\n'; else if (!prev_cr) o += mode == URI_BR_TO_LF ? "\n" : mode == URI_BR_TO_CRLF ? "\r\n" : "\r"; prev_cr = false; }
            else if (code == 13) { (*breaks)++; o += mode == URI_BR_TO_LF ? "\n" : mode == URI_BR_TO_CRLF ? "\r\n" : "\r"; prev_cr = true; }
            else { o += (char)code; prev_cr = false; }
            i += 3;
        } else { if (s[i] == '%') (*malformed)++; o += (s[i] == '+' && plus) ? ' ' : s[i]; prev_cr = false; i++; }
    }
    return o;
}

// the known defect, emulated: a wide character above U+00FF is always written as the triplet of its low byte; everything else as the reference does
static Str emulate_low_byte_escape(const std::wstring &w, bool plus, bool nb) {
    static const char *HX = "0123456789ABCDEF"; Str o, run;
    for (wchar_t c : w) { if ((unsigned long)c > 255) { o += ref_escape(run, plus, nb); run.clear(); unsigned b = (unsigned)c & 0xFF; o += '%'; o += HX[b >> 4]; o += HX[b & 15]; } else run += (char)(unsigned char)c; }
    return o + ref_escape(run, plus, nb);
}
template <class C> struct Runner {
    typedef Api<C> A; FenceBuf in; OutBuf out; Ctx *ctx; Local *lc;
    Runner(Ctx *c, Local *l, size_t ip = 4, size_t op = 8) : in(ip), out(op), ctx(c), lc(l) {}
    // input and output in one arena, the output area beginning exactly where the input range ends (adjacent, not overlapping)
    void adjacent_case(const Str &s) {
        std::basic_string<C> w = widen<C>(s);
        for (int plus = 0; plus < 2; plus++) for (int nb = 0; nb < 2; nb++) {
            lc->esc_cases++; size_t cap = s.size() * (nb ? 6 : 3) + 1; C *dst = (C *)out.end_minus(cap * sizeof(C)); C *src = dst - w.size(); memcpy(src, w.data(), w.size() * sizeof(C));
            int sig; Str enc = "J`" + s + fmt("`%d`%d`%s", plus, nb, A::name());
            if ((sig = GUARD_ENTER()) != 0) { ctx->violation("", enc, fmt("%s escaping into the area that starts where the input range ends", signame(sig))); continue; }
            C *end = A::EscapeEx(src, src + w.size(), dst, plus, nb); GUARD_LEAVE(); Str expect = ref_escape(s, plus, nb);
            if (!end) ctx->violation("", enc, "returned NULL although the output area only starts where the input range ends (no overlap)");
            else if (end < dst || end > dst + cap - 1 || *end != 0 || narrow<C>(dst, end) != expect) ctx->violation("", enc, "wrong output when the output area starts where the input range ends");
            else if (narrow<C>(src, src + w.size()) != s) ctx->violation("", enc, "the input was changed");
        }
    }
    void escape_case(const Str &s, int only_plus = -1, int only_nb = -1) {
        std::basic_string<C> w = widen<C>(s);
        for (int plus = 0; plus < 2; plus++) for (int nb = 0; nb < 2; nb++) for (int entry = 0; entry < 2; entry++) {
            if ((only_plus >= 0 && plus != only_plus) || (only_nb >= 0 && nb != only_nb)) continue;
            lc->esc_cases++; ctx->progress++;
            size_t cap = s.size() * (nb ? 6 : 3) + 1;
            C *dst = (C *)out.end_minus(cap * sizeof(C)); int sig; Str what; Str enc = "E`" + s + fmt("`%d`%d`%s", plus, nb, A::name());
            const C *src;
            if (entry == 0) src = (const C *)in.put_end(w.data(), w.size() * sizeof(C));
            else { std::basic_string<C> z = w; z.push_back((C)0); src = (const C *)in.put_end(z.data(), z.size() * sizeof(C)); }
            if ((sig = GUARD_ENTER()) == 0) {
                C *end = entry == 0 ? A::EscapeEx(src, src + w.size(), dst, plus, nb) : A::Escape(src, dst, plus, nb); GUARD_LEAVE();
                Str expect = ref_escape(s, plus, nb);
                if (!end) what = "returned NULL";
                else if (end < dst || end > dst + cap - 1) what = "returned pointer outside the output buffer";
                else if (*end != 0) what = "returned pointer is not the terminator";
                else {
                    Str got = narrow<C>(dst, end);
                    if (got.size() > s.size() * (nb ? 6 : 3)) what = "output longer than the documented bound";
                    for (size_t i = 0; i < got.size() && what.empty(); i++) {
                        unsigned char c = (unsigned char)got[i];
                        if (ref::is_unreserved(c) || (c == '+' && plus)) continue;
                        if (c == '%' && i + 2 < got.size() + 0 && i + 2 <= got.size() - 1 && strchr("0123456789ABCDEF", got[i + 1]) && strchr("0123456789ABCDEF", got[i + 2]) && got[i + 1] && got[i + 2]) { i += 2; continue; }
                        what = fmt("output contains character 0x%02x outside {unreserved, %%XX upper case%s}", c, plus ? ", +" : "");
                    }
                    if (what.empty() && got != expect) what = "output '" + esc(got) + "' differs from the reference '" + esc(expect) + "'";
                    if (what.empty()) {
                        // round trip through the library's own unescape with the matching option
                        std::basic_string<C> back(dst, end); back.push_back((C)0);
                        const C *e2 = A::UnescapeInPlaceEx(&back[0], plus, URI_BR_DONT_TOUCH);
                        Str r = narrow<C>(back.data(), e2), want = nb ? breaks_to_crlf(s) : s; lc->roundtrips++;
                        if (r != want) what = "unescape(escape(x)) = '" + esc(r) + "', expected '" + esc(want) + "'";
                    }
                }
            } else what = fmt("%s: escape wrote beyond 3n+1 (6n+1) characters or read beyond its input", signame(sig));
            if (!what.empty()) ctx->violation("", enc, what + (entry ? " [NUL-terminated entry]" : " [explicit range]"));
        }
    }
    void unescape_case(const Str &s, int only_plus = -1, int only_mode = -1) {
        std::basic_string<C> w = widen<C>(s);
        for (int plus = 0; plus < 2; plus++) for (int mode = 0; mode < 4; mode++) {
            if ((only_plus >= 0 && plus != only_plus) || (only_mode >= 0 && mode != only_mode)) continue;
            lc->unesc_cases++; ctx->progress++;
            C *buf = (C *)out.end_minus((w.size() + 1) * sizeof(C)); memcpy(buf, w.data(), w.size() * sizeof(C)); buf[w.size()] = 0;
            int sig; Str what; Str enc = "U`" + s + fmt("`%d`%d`%s", plus, mode, A::name());
            if ((sig = GUARD_ENTER()) == 0) {
                const C *end = (plus == 0 && mode == URI_BR_DONT_TOUCH && (s.size() & 1)) ? A::UnescapeInPlace(buf) : A::UnescapeInPlaceEx(buf, plus, (UriBreakConversion)mode); GUARD_LEAVE();
                uint64_t mf = 0, br = 0; Str expect = ref_unescape(s, plus, mode, &mf, &br); lc->malformed += mf; lc->breaks += br;
                if (!end || end < buf || end > buf + w.size()) what = "returned pointer outside the string (lengthened, or NULL)";
                else if (*end != 0) what = "returned pointer is not the terminator";
                else { Str got = narrow<C>(buf, end); if (got != expect) what = "result '" + esc(got) + "', expected '" + esc(expect) + "'"; if (got.size() < s.size()) lc->shrunk++; }
            } else what = fmt("%s: wrote past the terminator or read beyond it", signame(sig));
            if (!what.empty()) ctx->violation("", enc, what);
        }
    }
};

// wchar_t only: one string holding a code point above 255 (shape 0: alone, 1: between 'a' and a space, 2: twice around a line feed)
static void wide_escape_case(Ctx &ctx, Local &lc, unsigned long xv, int shape, int plus, int nb) {
    wchar_t x = (wchar_t)xv; std::wstring w; if (shape == 0) w += x; else if (shape == 1) { w += L'a'; w += x; w += L' '; } else { w += x; w += L'\n'; w += x; }
    std::vector<wchar_t> out(w.size() * 6 + 1, (wchar_t)0x55); int sig; lc.esc_cases++; Str enc = fmt("H`%lx.%d`%d`%d`W", xv, shape, plus, nb);
    if ((sig = GUARD_ENTER()) != 0) { ctx.violation("", enc, fmt("%s escaping a wide string with a code point above 255", signame(sig))); return; }
    wchar_t *end = uriEscapeExW(w.data(), w.data() + w.size(), out.data(), plus, nb); GUARD_LEAVE();
    if (!end || end < out.data() || end > out.data() + w.size() * 6 || *end != 0) { ctx.violation("", enc, "escape of a wide string: bad terminator / length bound"); return; }
    std::wstring esc_w((const wchar_t *)out.data(), (const wchar_t *)end), back = esc_w; back.push_back(0);
    // the output alphabet holds for these inputs too
    bool legal = true;
    for (size_t i = 0; i < esc_w.size() && legal; i++) { unsigned long c = (unsigned long)esc_w[i];
        if (c == '%') { legal = i + 2 < esc_w.size(); for (int k = 1; k <= 2 && legal; k++) { unsigned long h = (unsigned long)esc_w[i + k]; legal = (h >= '0' && h <= '9') || (h >= 'A' && h <= 'F'); } i += 2; }
        else legal = c < 128 && (ref::is_unreserved((unsigned char)c) || (c == '+' && plus)); }
    if (!legal) { ctx.violation("", enc, fmt("escape of a wide string containing U+%lX emitted something other than unreserved characters, upper-case triplets and '+': '%s'", xv, esc(narrow<wchar_t>(esc_w)).c_str())); return; }
    const wchar_t *e2 = uriUnescapeInPlaceExW(&back[0], plus, URI_BR_DONT_TOUCH); std::wstring rt((const wchar_t *)back.data(), e2);
    std::wstring want = w; if (nb) { std::wstring t; for (wchar_t c : w) { if (c == L'\n') t += L"\r\n"; else t += c; } want = t; }
    if (rt != want) { bool emul = narrow<wchar_t>(esc_w) == emulate_low_byte_escape(w, plus, nb); ctx.violation(emul ? "C16-wide-code-point-above-255" : "", enc, fmt("unescape(escape(x)) differs from x for a wide x containing U+%lX (escaped as '%s')", xv, esc(narrow<wchar_t>(esc_w)).c_str())); }
}
void run(Ctx &ctx) {
    Local lc; Runner<char> ra(&ctx, &lc); Runner<wchar_t> rw(&ctx, &lc); SanWatch sw;
    int Le = (ctx.secondary ? 3 : ctx.quick() ? 5 : 6) + ctx.bonus, Lu = (ctx.secondary ? 4 : ctx.quick() ? 6 : 7) + ctx.bonus;
    // escape: every single character, every pair over 14 symbols, all strings over 7 symbols
    uint64_t idx = 0;
    for (int c = 1; c < 256; c++) if (ctx.mine(idx++)) { Str s(1, (char)c); ra.escape_case(s); rw.escape_case(s); }
    const Str A14 = Str("aZ0~ +%\r\n\x01\x7f\x80\xff/", 14);
    for (char a : A14) for (char b : A14) if (ctx.mine(idx++)) { Str s; s += a; s += b; ra.escape_case(s); rw.escape_case(s); }
    for (const char *t : { "a", "a b", "\n", "%", "abc\xff", "aaaaaaaaaaaaaaaaaaaaaaaa" }) if (ctx.mine(idx++)) { ra.adjacent_case(t); rw.adjacent_case(t); }
    all_strings(ctx, Str("a +%\r\n\xff", 7), Le, [&](const Str &s) { if (ctx.expired()) return; ra.escape_case(s); rw.escape_case(s); });
    all_strings(ctx, Str("%0aAdDg+x\r\n", 11), Lu, [&](const Str &s) { if (ctx.expired()) return; ra.unescape_case(s); rw.unescape_case(s); });
    // every '%' followed by two characters out of the 22 hexadecimal digits and their six neighbours in the code table (all 256 values in every
    // spelling, and every near miss), alone, embedded, and twice in a row
    {
        const Str H = "0123456789abcdefABCDEF/:@G`g"; uint64_t hi = 0;
        for (char x : H) for (char y : H) { if (!ctx.mine(hi++) || ctx.expired()) continue; Str t = "%"; t += x; t += y;
            for (const Str &s : { t, "a" + t + "b", t + t, t + "%0A" }) { ra.unescape_case(s); rw.unescape_case(s); } ctx.st.count("triplet_sweep"); }
    }
    // token sequences: interactions that short raw strings cannot reach (encoded CR/LF next to malformed '%', '+', raw breaks)
    {
        std::vector<Str> toks = { "%0D", "%0A", "%0d", "%0a", "%", "%A", "%4", "%g", "a", "+", "%41", "\r", "\n", "%2" }; int nt = (ctx.secondary ? 3 : ctx.quick() ? 4 : 5) + ctx.bonus; uint64_t ti = 0;
        token_seqs(toks, nt, [&](const std::vector<int> &seq) { if (!ctx.mine(ti++) || ctx.expired()) return; Str t; for (int k : seq) t += toks[k]; ra.unescape_case(t); rw.unescape_case(t); });
        std::vector<Str> etoks = { "\r", "\n", " ", "a", "%", "\xff", "+" }; int ne = ctx.secondary ? 3 : ctx.quick() ? 6 : 7; (void)ne;
    }
    // stretch family: one unit repeated to lengths around the powers of two (counters and size arithmetic in too narrow a type)
    {
        Runner<char> sa(&ctx, &lc, 520, 1620); Runner<wchar_t> sb(&ctx, &lc, 520, 1620); uint64_t si = 0; std::vector<int> L = stretch_lengths(ctx.secondary ? 0 : ctx.quick() ? 1 : 2);
        for (const char *u : { "a", " ", "\n", "\r", "\r\n", "\xff", "%", "a \n" }) for (int n : L) { if (!ctx.mine(si++) || ctx.expired()) continue; Str s; for (int i = 0; i < n; i++) s += u; if (s.size() > 66000) continue; sa.escape_case(s); sb.escape_case(s); ctx.st.count("stretch_family"); }
        // a decoded triplet (the text gets shorter) in front of, between and behind long plain runs: bulk moves of what follows
        for (const char *pre : { "%41", "%0D%0A", "+%41", "%4g%41" }) for (int n : L) { if (!ctx.mine(si++) || ctx.expired()) continue; Str run; for (int i = 0; i < n; i++) run += (char)('a' + i % 26);
            for (const Str &s : { Str(pre) + run, run + pre + run, Str(pre) + run + "%4", run + "%0A" + run + "%0D%0A" }) { sa.unescape_case(s); sb.unescape_case(s); } ctx.st.count("stretch_family"); }
        for (const char *u : { "%41", "%0D%0A", "%0d", "%0A", "%", "+", "a", "%4", "%4g%41" }) for (int n : L) { if (!ctx.mine(si++) || ctx.expired()) continue; Str s; for (int i = 0; i < n; i++) s += u; sa.unescape_case(s); sb.unescape_case(s); ctx.st.count("stretch_family"); }
    }
    // wchar_t only: escaping code points above 255.  The statement's round trip ("restores the original characters") has no exception
    // for them, but %XX carries one byte: the library escapes the low byte only (open known finding, classified by defect emulation:
    // the output must be exactly the escape of the low bytes - anything else on these inputs is a fresh violation)
    if (ctx.worker == 0) {
        static const wchar_t HI[] = { 0x100, 0x141, 0x20AC, 0x10041, 0x12D, 0x4E2D };
        for (wchar_t x : HI) for (int shape = 0; shape < 3; shape++) for (int plus = 0; plus < 2; plus++) for (int nb = 0; nb < 2; nb++) wide_escape_case(ctx, lc, (unsigned long)x, shape, plus, nb);
    }
    // wchar_t only: a '%' followed by code points above 255 whose low byte is a hex digit is malformed and stays untouched
    if (ctx.worker == 0) {
        static const wchar_t X[] = { 0x141, 0x130, 0x161, 0x10041, 0x430 };
        for (wchar_t x : X) for (wchar_t y : { (wchar_t)'4', (wchar_t)0x131, (wchar_t)'A', (wchar_t)'g' }) for (int order = 0; order < 2; order++) for (int mode = 0; mode < 4; mode += 3) {
            std::wstring w = L"a%"; w += order ? y : x; w += order ? x : y; w += L"b%41"; std::wstring want = L"a%"; want += order ? y : x; want += order ? x : y; want += L"bA";
            std::wstring buf = w; buf.push_back(0); int sig; lc.unesc_cases++;
            if ((sig = GUARD_ENTER()) != 0) { ctx.violation("", "W`0`0`0`W", fmt("%s unescaping a wide string with code points above 255", signame(sig))); continue; }
            const wchar_t *end = uriUnescapeInPlaceExW(&buf[0], URI_FALSE, (UriBreakConversion)mode); GUARD_LEAVE();
            if (!end || std::wstring((const wchar_t *)buf.data(), end) != want) ctx.violation("", fmt("W`%lx.%lx.%d`%d`0`W", (unsigned long)x, (unsigned long)y, order, mode), "a '%' followed by a wide code point above 255 (low byte a hex digit) was taken for a percent-encoding");
        }
    }
    if (sw.tripped()) ctx.violation("", "E`a`0`0`A", "AddressSanitizer reported an invalid access");
    ctx.st.count("evaluations", lc.esc_cases + lc.unesc_cases); ctx.st.count("escape_cases", lc.esc_cases); ctx.st.count("unescape_cases", lc.unesc_cases); ctx.st.count("roundtrips", lc.roundtrips);
    ctx.st.count("unescape_shrunk", lc.shrunk); ctx.st.count("malformed_percent_seen", lc.malformed); ctx.st.count("encoded_breaks_seen", lc.breaks);
    if (ctx.worker == 0) { ctx.st.count("Le", Le); ctx.st.count("Lu", Lu); ctx.st.sample("escape ' \\r\\n%' spaceToPlus=1 normalizeBreaks=1"); ctx.st.sample("unescape '%0d%0A%4%g+' plusToSpace=1 URI_BR_TO_CRLF"); }
}
void replay(Ctx &ctx, const Str &enc) {
    std::vector<Str> p = split(enc, '`'); if (p.size() < 5) return;
    while (p.size() > 5) { p[1] += "`" + p[2]; p.erase(p.begin() + 2); }      // the string itself may hold a back-tick
    Local lc; int a = atoi(p[2].c_str()), b = atoi(p[3].c_str());
    if (p[0] == "H") { unsigned long x = 0; int shape = 0; if (sscanf(p[1].c_str(), "%lx.%d", &x, &shape) == 2) wide_escape_case(ctx, lc, x, shape, a, b); return; }
    if (p[0] == "W") { unsigned long x = 0, y = 0; int order = 0; if (sscanf(p[1].c_str(), "%lx.%lx.%d", &x, &y, &order) != 3) return; std::wstring w = L"a%"; w += (wchar_t)(order ? y : x); w += (wchar_t)(order ? x : y); w += L"b%41"; std::wstring want = w.substr(0, w.size() - 3) + L"A";
        std::wstring buf = w; buf.push_back(0); const wchar_t *end = uriUnescapeInPlaceExW(&buf[0], URI_FALSE, (UriBreakConversion)a); if (!end || std::wstring((const wchar_t *)buf.data(), end) != want) ctx.violation("", enc, "a '%' followed by a wide code point above 255 (low byte a hex digit) was taken for a percent-encoding"); return; }
    if (p[0] == "J") { if (p[4] == "A") { Runner<char> r(&ctx, &lc, 520, 1620); r.adjacent_case(p[1]); } else { Runner<wchar_t> r(&ctx, &lc, 520, 1620); r.adjacent_case(p[1]); } return; }
    if (p[4] == "A") { Runner<char> r(&ctx, &lc, 520, 1620); if (p[0] == "E") r.escape_case(p[1], a, b); else r.unescape_case(p[1], a, b); }
    else { Runner<wchar_t> r(&ctx, &lc, 520, 1620); if (p[0] == "E") r.escape_case(p[1], a, b); else r.unescape_case(p[1], a, b); }
}
Str coverage(const Ctx &, const Stats &st) {
    return jkv("evaluations", st.get("evaluations")) + ", " + jkv("distinct_nontrivial", st.get("unescape_shrunk") + st.get("roundtrips")) + ", " +
           jkvs("rule", "cases = (string, flags, entry point, char type). Escape: every single character 1..255, every pair over 14 symbols (letters, digit, ~, space, +, %, CR, LF, 0x01, 0x7F, 0x80, 0xFF, /), all strings up to length Le over {a, space, +, %, CR, LF, 0xFF}; both flags; explicit range and NUL-terminated; output placed in a buffer of exactly 3n+1 (6n+1) characters ending at an inaccessible page. Unescape: all strings up to length Lu over {%, 0, a, A, d, D, g, +, x, CR, LF} and all sequences of up to 4 (quick) / 5 tokens over {%0D, %0A, %0d, %0a, %, %A, %4, %g, a, +, %41, CR, LF, %2}; plus on/off; four break modes; buffer of exactly strlen+1 characters ending at an inaccessible page. Oracles: an independent escape/unescape pair, output alphabet, bounds, returned pointer, and the library's own unescape(escape(x)). distinct_nontrivial = unescape cases that actually shortened the string + completed escape round trips (each a distinct case by construction).") + ", " +
           jkv("escape_cases", st.get("escape_cases")) + ", " + jkv("unescape_cases", st.get("unescape_cases")) + ", " + jkv("roundtrips", st.get("roundtrips")) + ", " + jkv("unescape_shrunk", st.get("unescape_shrunk")) + ", " +
           jkv("malformed_percent_seen", st.get("malformed_percent_seen")) + ", " + jkv("encoded_breaks_seen", st.get("encoded_breaks_seen")) + ", " + jkv("escape_max_len", st.get("Le")) + ", " + jkv("unescape_max_len", st.get("Lu")) + ", " + jkv("stretch_family_strings", st.get("stretch_family")) + ", " + jsamples(st);
}
Check chk = { "C16", "exploration", run, replay, coverage, "line-break conversion on unescape is defined on percent-encoded breaks (%0D%0A, %0D, %0A), as the implementation documents; raw CR/LF characters pass through|wide code points above 255: escaping keeps only the low byte (open known finding C16-wide-code-point-above-255, classified by defect emulation); unescaping is checked to leave them untouched" };
REGISTER_CHECK(chk);
}
