// Scenarios = one library call under test together with the inputs it needs and the caller's ordinary cleanup.
// Shared by C13 (manager discipline) and C14 (allocation-failure enumeration).
#pragma once
#include "../core.h"
#include "fixture.h"
#include "corpus.h"
#include "resolve_sets.h"
#include "../gen.h"

extern "C" void vf_lib_free(void *);
enum ScnKind { K_PARSE = 0, K_MAKEOWNER, K_NORMALIZE, K_RESOLVE, K_SHORTEN, K_DISSECT, K_COMPOSE, K_NKINDS };
static const char *SCN_NAMES[] = { "parse", "makeOwner", "normalize", "resolve", "shorten", "dissectQuery", "composeQuery" };
struct ScnSpec {
    int kind; Str a, b; int p1, p2;
    Str enc() const { return fmt("%d`", kind) + a + "`" + b + fmt("`%d`%d", p1, p2); }
    static bool dec(const std::vector<Str> &p, size_t at, ScnSpec &s) { if (p.size() < at + 5) return false; s.kind = atoi(p[at].c_str()); s.a = p[at + 1]; s.b = p[at + 2]; s.p1 = atoi(p[at + 3].c_str()); s.p2 = atoi(p[at + 4].c_str()); return s.kind >= 0 && s.kind < K_NKINDS; }
    Str show() const { return Str(SCN_NAMES[kind]) + "(" + esc(a) + (b.empty() ? "" : ", " + esc(b)) + fmt(", %d, %d)", p1, p2); }
};

// The memory the call under test draws from: the ledger (custom manager) or libc through the interposers (NULL manager).
struct Mem {
    int kind;              // 0 ledger, 1 libc (NULL manager), 2 manager completed from a malloc/free-only ledger backend
    Ledger led; UriMemoryManager backend_only, completed; long libc_base; uint64_t libc_calls_base, libc_free_base, libc_badfree_base;
    explicit Mem(int k) : kind(k), libc_base(0) {
        backend_only = led.mm; backend_only.calloc = 0; backend_only.realloc = 0; backend_only.reallocarray = 0;
        if (kind == 2 && uriCompleteMemoryManager(&completed, &backend_only) != URI_SUCCESS) abort();
        mark();
    }
    UriMemoryManager *mm() { return kind == 0 ? &led.mm : kind == 2 ? &completed : 0; }
    void mark() { libc_base = g_libc.balance; libc_calls_base = libc_alloc_calls(); libc_free_base = g_libc.n_free_nonnull; libc_badfree_base = g_libc.bad_free; }
    void arm(uint64_t at, uint64_t at2, uint64_t from) {
        if (kind == 1) { g_libc.n_requests = 0; g_libc.n_failed = 0; g_libc.fail_at = at; g_libc.fail_at2 = at2; g_libc.fail_from = from; }
        else { led.n_requests = 0; led.n_failed = 0; led.fail_at = at; led.fail_at2 = at2; led.fail_from = from; }
    }
    void disarm() { if (kind == 1) g_libc.fail_at = g_libc.fail_at2 = g_libc.fail_from = 0; else led.clear_injection(); }
    uint64_t requests() const { return kind == 1 ? g_libc.n_requests : led.n_requests; }
    uint64_t failed() const { return kind == 1 ? g_libc.n_failed : led.n_failed; }
    long outstanding() const { return kind == 1 ? g_libc.balance - libc_base : (long)led.live.size(); }
    uint64_t frees() const { return kind == 1 ? g_libc.n_free_nonnull : led.n_free; }
    Str misuse() const { if (kind == 1) return g_libc.bad_free != libc_badfree_base ? Str("free() of a pointer libc never handed to the library") : Str(); return led.errors.empty() ? Str() : led.errors[0]; }
    // with a custom manager nothing may go to libc behind its back
    Str bypass() const { if (kind == 1) return ""; if (libc_alloc_calls() != libc_calls_base) return "allocation went to libc although a manager was supplied"; if (g_libc.n_free_nonnull != libc_free_base) return "free() went to libc although a manager was supplied"; return ""; }
    void reset() { disarm(); if (kind != 1) led.reset(); mark(); }
};

template <class C> struct Scenario {
    typedef Api<C> A; typedef typename A::Uri Uri; typedef typename A::QList QL;
    ScnSpec sp; Mem *mem; ArenaMM *ro;
    std::basic_string<C> ta, tb; Uri u, dest; RoUri<C> ra, rb; QL *ql; int qcount; C *composed;
    std::vector<std::basic_string<C> > ks, vs; std::vector<QL> nodes; bool u_live, dest_live;
    Uri oa, ob; bool owned_inputs; Str in_key_a, in_key_b;      // resolve / shorten with p2 == 1: both inputs are owner URIs made through the manager under test
    Scenario(const ScnSpec &s, Mem *m, ArenaMM *r) : sp(s), mem(m), ro(r), ql(0), qcount(0), composed(0), u_live(false), dest_live(false), owned_inputs(false) { memset(&u, 0, sizeof u); memset(&dest, 0, sizeof dest); memset(&oa, 0, sizeof oa); memset(&ob, 0, sizeof ob); }

    int parse_into(Uri *x, const std::basic_string<C> &t) { const C *ep = 0; UriMemoryManager *mm = mem->mm(); return mm ? A::ParseSingleUriExMm(x, t.data(), t.data() + t.size(), &ep, mm) : A::ParseSingleUriEx(x, t.data(), t.data() + t.size(), &ep); }
    // builds the inputs; injection is off while this runs
    bool setup() {
        ta = widen<C>(sp.a); tb = widen<C>(sp.b);
        switch (sp.kind) {
        case K_PARSE: return true;
        case K_MAKEOWNER: u_live = true; return parse_into(&u, ta) == URI_SUCCESS;
        case K_NORMALIZE: { u_live = true; if (parse_into(&u, ta) != URI_SUCCESS) return false; if (sp.p2) { UriMemoryManager *mm = mem->mm(); return (mm ? A::MakeOwnerMm(&u, mm) : A::MakeOwner(&u)) == URI_SUCCESS; } return true; }
        case K_RESOLVE: case K_SHORTEN:
            if (sp.p2 == 1) {   // owner inputs (parsed, then uriMakeOwner): a callee that releases or rewrites what an owner input holds shows in the ledger / in the key
                UriMemoryManager *mm = mem->mm(); owned_inputs = true;
                if (parse_into(&oa, ta) != URI_SUCCESS || parse_into(&ob, tb) != URI_SUCCESS) return false;
                if ((mm ? A::MakeOwnerMm(&oa, mm) : A::MakeOwner(&oa)) != URI_SUCCESS || (mm ? A::MakeOwnerMm(&ob, mm) : A::MakeOwner(&ob)) != URI_SUCCESS) return false;
                in_key_a = observe<C>(oa).key(); in_key_b = observe<C>(ob).key(); ra.u = &oa; rb.u = &ob; return true;
            }
            ro->arena.reset(); ra = make_ro<C>(*ro, sp.a); rb = make_ro<C>(*ro, sp.b); ro->arena.protect(); return ra.ok && rb.ok;
        case K_DISSECT: return true;
        case K_COMPOSE: {
            std::vector<Str> items = split(sp.a, '\x01'); ks.resize(items.size()); vs.resize(items.size()); nodes.resize(items.size());
            for (size_t i = 0; i < items.size(); i++) { std::vector<Str> kv = split(items[i], '\x02'); ks[i] = widen<C>(kv[0]); bool hv = kv.size() > 1 && kv[1][0] == 'v'; if (hv) vs[i] = widen<C>(kv[1].substr(1)); nodes[i].key = ks[i].c_str(); nodes[i].value = hv ? vs[i].c_str() : 0; nodes[i].next = i + 1 < items.size() ? &nodes[i + 1] : 0; }
            return !items.empty();
        }
        }
        return false;
    }
    // the call under test
    int call() {
        UriMemoryManager *mm = mem->mm(); const C *ep = 0;
        switch (sp.kind) {
        case K_PARSE:
            u_live = true; memset(&u, 0x5A, sizeof u);      // an OUT parameter: what it holds on entry must not matter (not read, not released)
            if (mm) return A::ParseSingleUriExMm(&u, ta.data(), ta.data() + ta.size(), &ep, mm);
            if (sp.p1 == 1) { typename A::State st; st.uri = &u; return A::ParseUriEx(&st, ta.data(), ta.data() + ta.size()); }
            if (sp.p1 == 2) return A::ParseSingleUri(&u, ta.c_str(), &ep);
            return A::ParseSingleUriEx(&u, ta.data(), ta.data() + ta.size(), &ep);
        case K_MAKEOWNER: return mm ? A::MakeOwnerMm(&u, mm) : A::MakeOwner(&u);
        case K_NORMALIZE: return mm ? A::NormalizeSyntaxExMm(&u, (unsigned)sp.p1, mm) : (sp.p1 == 63 ? A::NormalizeSyntax(&u) : A::NormalizeSyntaxEx(&u, (unsigned)sp.p1));
        case K_RESOLVE: { dest_live = true; memset(&dest, 0x5A, sizeof dest); UriResolutionOptions o = sp.p1 ? URI_RESOLVE_IDENTICAL_SCHEME_COMPAT : URI_RESOLVE_STRICTLY; return mm ? A::AddBaseUriExMm(&dest, ra.u, rb.u, o, mm) : (sp.p1 ? A::AddBaseUriEx(&dest, ra.u, rb.u, o) : A::AddBaseUri(&dest, ra.u, rb.u)); }
        case K_SHORTEN: dest_live = true; memset(&dest, 0x5A, sizeof dest); return mm ? A::RemoveBaseUriMm(&dest, ra.u, rb.u, sp.p1, mm) : A::RemoveBaseUri(&dest, ra.u, rb.u, sp.p1);
        case K_DISSECT: return mm ? A::DissectQueryMallocExMm(&ql, &qcount, ta.data(), ta.data() + ta.size(), sp.p1, (UriBreakConversion)sp.p2, mm) : A::DissectQueryMallocEx(&ql, &qcount, ta.data(), ta.data() + ta.size(), sp.p1, (UriBreakConversion)sp.p2);
        case K_COMPOSE: return mm ? A::ComposeQueryMallocExMm(&composed, &nodes[0], sp.p1, sp.p2, mm) : A::ComposeQueryMallocEx(&composed, &nodes[0], sp.p1, sp.p2);
        }
        return -1;
    }
    void free_uri(Uri *x) { UriMemoryManager *mm = mem->mm(); if (mm) A::FreeUriMembersMm(x, mm); else A::FreeUriMembers(x); }
    // what a caller does afterwards, whatever the call returned: free the members of the URI it passed for output or in-place change
    // owner inputs must come out of the call exactly as they went in
    Str inputs_changed() { if (!owned_inputs) return ""; if (observe<C>(oa).key() != in_key_a) return "the first input URI (an owner) was modified or its memory released"; if (observe<C>(ob).key() != in_key_b) return "the second input URI (an owner) was modified or its memory released"; return ""; }
    void cleanup(int rc) {
        UriMemoryManager *mm = mem->mm();
        if (owned_inputs) { free_uri(&oa); free_uri(&ob); }
        if (u_live) free_uri(&u);
        if (dest_live) free_uri(&dest);
        if (sp.kind == K_DISSECT && rc == URI_SUCCESS) { if (mm) A::FreeQueryListMm(ql, mm); else A::FreeQueryList(ql); ql = 0; }
        if (sp.kind == K_COMPOSE && rc == URI_SUCCESS && composed) { if (mm) mm->free(mm, composed); else vf_free(composed); composed = 0; }
    }
    static void vf_free(void *p) { vf_lib_free(p); }
    // the result without representation details (owner flag, NULL-vs-placeholder): what a retry after a failure must reproduce
    Str result_content(int rc) {
        if (rc != URI_SUCCESS) return fmt("rc=%d", rc);
        switch (sp.kind) { case K_PARSE: case K_MAKEOWNER: case K_NORMALIZE: { int t; return observe<C>(u).content_key() + " " + to_text<C>(u, &t); } case K_RESOLVE: case K_SHORTEN: { int t; return observe<C>(dest).content_key() + " " + to_text<C>(dest, &t); } }
        return result_key(rc);
    }
    // repeated release must be harmless
    void cleanup_again() { if (u_live) { free_uri(&u); free_uri(&u); } if (dest_live) { free_uri(&dest); free_uri(&dest); } }
    // observation of the result (for comparing runs)
    Str result_key(int rc) {
        if (rc != URI_SUCCESS) return fmt("rc=%d", rc);
        switch (sp.kind) {
        case K_PARSE: case K_MAKEOWNER: case K_NORMALIZE: return observe<C>(u).key();
        case K_RESOLVE: case K_SHORTEN: return observe<C>(dest).key();
        case K_DISSECT: { Str s = fmt("n=%d:", qcount); for (QL *q = ql; q; q = q->next) { s += "(" + narrow<C>(q->key, q->key + std::char_traits<C>::length(q->key)) + ","; s += q->value ? narrow<C>(q->value, q->value + std::char_traits<C>::length(q->value)) : Str("NULL"); s += ")"; } return s; }
        case K_COMPOSE: return composed ? narrow<C>(composed, composed + std::char_traits<C>::length(composed)) : Str("NULL");
        }
        return "";
    }
};

static inline Str enc_items(const std::vector<std::pair<Str, const char *> > &items) { Str s; for (size_t i = 0; i < items.size(); i++) { if (i) s += "\x01"; s += items[i].first + "\x02" + (items[i].second ? Str("v") + items[i].second : Str("n")); } return s; }

// the scenario universe; size 0 tiny (sanitizer pass), 1 small, 2 medium (quick), 3 large (thorough)
static inline std::vector<ScnSpec> scenario_specs(int size) {
    std::vector<ScnSpec> v; auto add = [&](int k, const Str &a, const Str &b, int p1, int p2) { ScnSpec s; s.kind = k; s.a = a; s.b = b; s.p1 = p1; s.p2 = p2; v.push_back(s); };
    std::vector<Str> shape = shape_list(size >= 3 ? 2 : size >= 2 ? 1 : 0);
    if (size == 0) { std::vector<Str> t; for (size_t i = 0; i < shape.size(); i += 7) t.push_back(shape[i]); shape = t; }
    std::vector<Str> extra = { "a/b/c", "s://u:p@[::1]:80/a/./b/../c?q#f", "//[v1.x]/%41", "s://1.2.3.4", "S://H/%7e/../x", "./a:b", "/.//a", "a/../b:c", ".//b", "//1%2E2.3.4/a", "S://u@%31.2.3.4:8/%41?q", "//1.2.3.4:%41@h", "//1.2.3.4:21%41@5.6.7.8/p", "//1.2.3.4:1@[::1]", "s://u:12%34@[v1.a]" };
    shape.insert(shape.end(), extra.begin(), extra.end());
    for (auto &t : shape) {
        for (int e = 0; e < 3; e++) add(K_PARSE, t, "", e, 0);
        add(K_MAKEOWNER, t, "", 0, 0);
        for (int m : { 1, 2, 4, 8, 16, 32, 63, 5 }) for (int owned = 0; owned < 2; owned++) add(K_NORMALIZE, t, "", m, owned);
    }
    // dot-segment shapes in every path context: each allocating branch of the dot-segment remover (trailing-slash segment after a final
    // '..', re-used segment, guard '.' put back) must meet a failing request, on borrowed and on owned paths
    if (size >= 1) {
        std::vector<Str> tk = { "", ".", "..", "a" }; if (size >= 3) tk.push_back("c:d");
        std::vector<Str> rl = path_token_paths(tk, 3, 0), ab = path_token_paths(tk, 3, 1); std::set<Str> seen(shape.begin(), shape.end());
        auto addn = [&](const Str &t) { if (!ref::is_uri_reference(t) || !seen.insert(t).second) return; for (int m : { 8, 63 }) for (int owned = 0; owned < 2; owned++) add(K_NORMALIZE, t, "", m, owned); };
        for (auto &q : rl) { addn(q); addn("s:" + q); }
        for (auto &q : ab) { addn(q); addn("//h" + q); addn("s://1.2.3.4" + q); }
    }
    std::vector<Str> refs = resolve_refs(size == 0 ? 1 : size >= 3 ? 3 : 2, size >= 3), bases = { "s://h/a/b?q", "s:/a/b", "s:a/b", "s:", "s://u@[::1]:1/", "t://1.2.3.4/x//y", "a/b" };
    std::vector<Str> rx = { "../../x", "s:./../a", "//g/../b", "?q", "", "#f", ".//b", "/.//b", "a/b/c/d/../../e",
        // every allocating step of every branch of 5.2.2: own scheme / own authority with an IP host, dot segments that leave a trailing
        // slash, results that need the guarding '.' segment
        "t://1.2.3.4/a/b/..", "t://[::1]/a/b/../..", "s://1.2.3.4/x", "t:/.//x", "t:/a/..//x", "t:/a/b/..", "//1.2.3.4/a/b/..", "//[::2]/a/./b/../..", "//g/a/b/..",
        "/a/b/..", "/a/b/../..", "/a/..//x", "a/b/..", "a/b/../..", "..//x", "./..//x", "../..//x/y/.." };
    refs.insert(refs.end(), rx.begin(), rx.end());
    if (size >= 1) for (auto b2 : { "s:/a", "s:/", "s://h", "s://1.2.3.4:1/a/b/c/d", "s://h/a/./b/../c/d", "s:/a/../b/./c", "s:a/./b/..", "s://1.2.3.4/a/./b/c", "s://u@[::1]:1/x/../y/z" }) bases.push_back(b2);
    for (auto &r : refs) for (auto &b : bases) for (int o = 0; o < 2; o++) add(K_RESOLVE, r, b, o, 0);
    if (size >= 1) for (auto &r : rx) for (auto &b : bases) add(K_RESOLVE, r, b, 0, 1);                   // the same with owner inputs
    std::vector<Str> srcs = { "s://h/a/b/c", "s://h/a", "s://h", "s://h/", "s:/a/b", "s:a/b", "s:", "s://u@[::1]:1/x", "t://1.2.3.4/x", "s://h/a/b?q#f", "s://h//x", "s:/c:d", "s:c:d/e", "s://g/a/../b", "a/b", "s://h/a/b/c/d/e/f",
        "s://h/a//b", "s://h/a/b//", "s:/a//b", "s:/", "s:/a/", "s://h/a/", "s:/a/b/", "s://u@[::1]:1/", "s://u@[::1]:1", "t://1.2.3.4/x//y", "t://1.2.3.4/x//", "s:/a/c:d", "s://h/c:d" };
    for (auto &s : srcs) for (auto &b : bases) for (int m = 0; m < 2; m++) { add(K_SHORTEN, s, b, m, 0); if (size >= 1) add(K_SHORTEN, s, b, m, 1); }
    { Ctx dummy; dummy.nworkers = 1; all_strings(dummy, "&=a%+", size == 0 ? 3 : 4, [&](const Str &q) { add(K_DISSECT, q, "", 1, URI_BR_DONT_TOUCH); if (size >= 1) add(K_DISSECT, q, "", 0, URI_BR_TO_CRLF); }); add(K_DISSECT, "a=%0D%0A&b=+%41&&c", "", 1, URI_BR_TO_LF); }
    const char *K[] = { "", "a", "&=", " \n" }; const char *V[] = { 0, "", "b", "%\r" };
    for (auto k1 : K) for (auto v1 : V) { add(K_COMPOSE, enc_items({ { k1, v1 } }), "", 1, 1); for (auto k2 : K) for (auto v2 : V) add(K_COMPOSE, enc_items({ { k1, v1 }, { k2, v2 } }), "", (int)(strlen(k2) & 1), 1); }
    return v;
}
