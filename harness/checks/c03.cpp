// C03 - parsing stays inside [first, afterLast), never writes to the input, and leaves no residue on failure.
#include "../core.h"
#include "../plat.h"
#include "../mm.h"
#include "../obs.h"
#include "parse_sets.h"
#include "corpus.h"

namespace {
enum { NIL = -1000000, OUTSIDE = -2000000, MAXSEG = 24 };
struct Out {      // POD outcome of one parse, positions relative to `first`
    int rc; long err; long r[14]; unsigned char ip[16]; int hostbits, abs, owner, nseg, tail_ok; long seg[2 * MAXSEG];
};
template <class C> long rel(const C *p, const C *f, int n) { if (!p) return NIL; if (p < f || p > f + n) return OUTSIDE; return (long)(p - f); }
template <class C> void fill_out(Out &o, int rc, const C *err, const typename Api<C>::Uri &u, const C *f, int n) {
    memset(&o, 0, sizeof o); o.rc = rc; o.err = rel<C>(err, f, n);
    if (rc != URI_SUCCESS) return;
    const typename Api<C>::Range *rs[7] = { &u.scheme, &u.userInfo, &u.hostText, &u.portText, &u.query, &u.fragment, &u.hostData.ipFuture };
    for (int i = 0; i < 7; i++) { o.r[2 * i] = rel<C>(rs[i]->first, f, n); o.r[2 * i + 1] = rel<C>(rs[i]->afterLast, f, n); }
    if (u.hostData.ip4) { o.hostbits |= 1; memcpy(o.ip, u.hostData.ip4->data, 4); }
    if (u.hostData.ip6) { o.hostbits |= 2; memcpy(o.ip, u.hostData.ip6->data, 16); }
    o.abs = u.absolutePath; o.owner = u.owner; const typename Api<C>::Seg *last = 0;
    for (const typename Api<C>::Seg *s = u.pathHead; s; s = s->next) { if (o.nseg < MAXSEG) { o.seg[2 * o.nseg] = rel<C>(s->text.first, f, n); o.seg[2 * o.nseg + 1] = rel<C>(s->text.afterLast, f, n); } o.nseg++; last = s; }
    o.tail_ok = u.pathTail == last;
}
struct Local { uint64_t strings = 0, parses = 0, contexts = 0, splits = 0, oom_runs = 0, fail_parses = 0, ok_parses = 0, placeholder_ranges = 0; };

template <class C> struct Runner {
    FenceBuf fb; Ledger led; Ctx *ctx; Local *lc;
    Runner(Ctx *c, Local *l, size_t pages = 4) : fb(pages), ctx(c), lc(l) {}
    void bad(const C *s, int n, const Str &what) { ctx->violation("", narrow<C>(s, s + n), what + fmt(" type=%s", Api<C>::name())); }
    // one parse with the ledger manager; checks residue rules; returns outcome
    void parse(Out &o, const C *p, int n, const C *orig, int on, const char *where) {
        typedef Api<C> A; typename A::Uri u; memset(&u, 0xEE, sizeof u); const C *ep = 0;
        led.clear_injection(); uint64_t req0 = led.n_requests;
        int rc = A::ParseSingleUriExMm(&u, p, p + n, &ep, &led.mm); lc->parses++;
        fill_out<C>(o, rc, ep, u, p, n);
        if (rc != URI_SUCCESS) {
            lc->fail_parses++;
            if (!led.live.empty()) bad(orig, on, fmt("%zu blocks still allocated after a failing parse (%s)", led.live.size(), where));
            uint64_t f0 = led.n_free; A::FreeUriMembersMm(&u, &led.mm); A::FreeUriMembersMm(&u, &led.mm);
            if (led.n_free != f0) bad(orig, on, fmt("freeing the output of a failed parse released %llu blocks (%s)", (unsigned long long)(led.n_free - f0), where));
        } else {
            lc->ok_parses++;
            // every non-empty range must lie inside the input; empty ones may use a placeholder
            for (int i = 0; i < 7; i++) { long a = o.r[2 * i], b = o.r[2 * i + 1];     // a range is a pair: both ends set or none, in order
                if ((a == NIL) != (b == NIL)) bad(orig, on, fmt("component %d: one end of the reported range is NULL, the other is not (%s)", i, where));
                else if (a != NIL && a != OUTSIDE && b != OUTSIDE && a > b) bad(orig, on, fmt("component %d: the reported range ends before it begins (%s)", i, where)); }
            { int k2 = 0; for (const typename A::Seg *sg = u.pathHead; sg; sg = sg->next, k2++) if (!sg->text.first || !sg->text.afterLast || sg->text.first > sg->text.afterLast) bad(orig, on, fmt("path segment %d: NULL or inverted range (%s)", k2, where)); }
            for (int i = 0; i < 7; i++) { long a = o.r[2 * i], b = o.r[2 * i + 1]; if ((a == OUTSIDE || b == OUTSIDE)) { if (i == 6 || !(a == OUTSIDE && b == OUTSIDE)) bad(orig, on, fmt("component %d range partly outside the input (%s)", i, where)); else { lc->placeholder_ranges++; const typename A::Range *rs[6] = { &u.scheme, &u.userInfo, &u.hostText, &u.portText, &u.query, &u.fragment }; if (rs[i]->first != rs[i]->afterLast) bad(orig, on, fmt("non-empty component %d outside the input (%s)", i, where)); } } }
            int k = 0; for (const typename A::Seg *s = u.pathHead; s; s = s->next, k++) if (k < MAXSEG && (o.seg[2 * k] == OUTSIDE || o.seg[2 * k + 1] == OUTSIDE) && s->text.first != s->text.afterLast) bad(orig, on, fmt("non-empty segment %d outside the input (%s)", k, where));
            A::FreeUriMembersMm(&u, &led.mm);
            if (!led.live.empty()) bad(orig, on, fmt("%zu blocks outstanding after freeing a parsed URI (%s)", led.live.size(), where));
            uint64_t f0 = led.n_free; A::FreeUriMembersMm(&u, &led.mm); A::FreeUriMembersMm(&u, &led.mm);
            if (led.n_free != f0) bad(orig, on, fmt("repeated free released %llu more blocks (%s)", (unsigned long long)(led.n_free - f0), where));
        }
        if (!led.errors.empty()) { bad(orig, on, "manager misuse: " + led.errors[0] + " (" + where + ")"); }
        (void)req0;
        if (!led.live.empty() || !led.errors.empty()) led.reset();
    }
    void run(const C *s, int n, int depth /*0: base+oom, 1: + contexts, 2: + splits*/) {
        typedef Api<C> A; int sig; lc->strings++; SanWatch sw;
        if ((sig = GUARD_ENTER()) == 0) {
            Out base, o;
            const C *p = (const C *)fb.put_end(s, (size_t)n * sizeof(C));
            parse(base, p, n, s, n, "guard-placed");
            // the entry points that take a caller-provided parser state use the C library allocator: same residue rules, observed
            // through the interposed malloc/free of the library objects
            {
                typename A::Uri u; typename A::State st; memset(&u, 0xEE, sizeof u); memset(&st, 0xEE, sizeof st); st.uri = &u;
                long bal0 = g_libc.balance; uint64_t bad0 = g_libc.bad_free;
                int rc = A::ParseUriEx(&st, p, p + n); lc->parses++;
                Out o2; fill_out<C>(o2, rc, rc ? st.errorPos : (const C *)0, u, p, n);
                if (memcmp(&o2, &base, sizeof o2) != 0) bad(s, n, fmt("ParseUriEx outcome differs from ParseSingleUriExMm: rc %d vs %d, errOff %ld vs %ld", o2.rc, base.rc, o2.err, base.err));
                if (rc != URI_SUCCESS) {
                    if (g_libc.balance != bal0) bad(s, n, fmt("%ld block(s) still allocated after a failing ParseUriEx, before the caller frees anything", g_libc.balance - bal0));
                    if (u.pathHead || u.pathTail || u.hostData.ip4 || u.hostData.ip6) bad(s, n, "output structure still holds path nodes or address data after a failing ParseUriEx");
                    uint64_t f0 = g_libc.n_free_nonnull; A::FreeUriMembers(&u); A::FreeUriMembers(&u);
                    if (g_libc.n_free_nonnull != f0 && g_libc.balance == bal0) bad(s, n, "freeing the output of a failed ParseUriEx released memory");
                } else { A::FreeUriMembers(&u); if (g_libc.balance != bal0) bad(s, n, fmt("%ld block(s) outstanding after ParseUriEx + free", g_libc.balance - bal0)); uint64_t f0 = g_libc.n_free_nonnull; A::FreeUriMembers(&u); if (g_libc.n_free_nonnull != f0) bad(s, n, "repeated free after ParseUriEx released more memory"); }
                if (g_libc.bad_free != bad0) bad(s, n, "free() of a pointer libc never handed to the library (ParseUriEx)");
                if (g_libc.balance != bal0) { A::FreeUriMembers(&u); }
            }
            // (5) out-of-memory at every allocation index
            {
                typename A::Uri u; const C *ep = 0; led.clear_injection(); uint64_t r0 = led.n_requests;
                int rc = A::ParseSingleUriExMm(&u, p, p + n, &ep, &led.mm); uint64_t nreq = led.n_requests - r0; A::FreeUriMembersMm(&u, &led.mm);
                if (rc == URI_SUCCESS || nreq) for (uint64_t k = 1; k <= nreq; k++) for (int mode = 0; mode < 2; mode++) {
                    if (depth < 0 && nreq > 24 && k > 8 && k + 8 <= nreq && k != nreq / 2) continue;   // stretch family: first, middle and last requests only
                    memset(&u, 0xEE, sizeof u); led.reset(); if (mode) led.fail_from = k; else led.fail_at = k;
                    rc = A::ParseSingleUriExMm(&u, p, p + n, &ep, &led.mm); lc->oom_runs++;
                    if (rc != URI_ERROR_MALLOC) bad(s, n, fmt("allocation %llu failed (%s) but parse returned %d", (unsigned long long)k, mode ? "from-k-on" : "once", rc));
                    if (!led.live.empty()) bad(s, n, fmt("%zu blocks left after out-of-memory at allocation %llu", led.live.size(), (unsigned long long)k));
                    uint64_t f0 = led.n_free; A::FreeUriMembersMm(&u, &led.mm); A::FreeUriMembersMm(&u, &led.mm);
                    if (led.n_free != f0 || !led.errors.empty()) bad(s, n, fmt("freeing after out-of-memory at allocation %llu released memory or misused the manager", (unsigned long long)k));
                    led.reset();
                }
            }
            if (depth >= 1 || depth == -1) {
                // (2) middle of a larger buffer, each trailing context
                for (int c = -1; c < DFA_NCLASSES; c++) {
                    C ctxbuf[16]; C cc = c < 0 ? (C)0 : (C)(unsigned char)DFA_CLASS_REP[c];
                    for (int i = 0; i < 16; i++) ctxbuf[i] = cc;
                    const C *q = (const C *)fb.put_at(256, s, (size_t)n * sizeof(C)); fb.put_at(256 + (size_t)n * sizeof(C), ctxbuf, sizeof ctxbuf);
                    parse(o, q, n, s, n, "trailing context"); lc->contexts++;
                    if (memcmp(&o, &base, sizeof o) != 0) bad(s, n, fmt("outcome depends on what follows the range (trailing byte 0x%02x): rc %d vs %d, errOff %ld vs %ld", (unsigned)(unsigned char)cc, o.rc, base.rc, o.err, base.err));
                }
            }
            if (depth >= 2) {
                // (3) every split point of the text, parsed in place
                const C *q = (const C *)fb.put_at(256, s, (size_t)n * sizeof(C));
                for (int i = 0; i < n; i++) {
                    Out a, b2; parse(a, q, i, s, n, "split in place");
                    const C *pp = (const C *)fb.put_end(s, (size_t)i * sizeof(C)); parse(b2, pp, i, s, n, "split guard-placed"); lc->splits++;
                    if (memcmp(&a, &b2, sizeof a) != 0) bad(s, n, fmt("prefix of length %d parses differently in place than alone: rc %d vs %d, errOff %ld vs %ld", i, a.rc, b2.rc, a.err, b2.err));
                }
            }
            GUARD_LEAVE();
            if (sw.tripped()) bad(s, n, "AddressSanitizer reported an invalid access");
        } else { bad(s, n, fmt("%s (read outside the range, write to the input, or crash)", signame(sig))); led.reset(); }
    }
};
struct Both {
    Local lc; Runner<char> ra; Runner<wchar_t> rw; Ctx &ctx; std::vector<wchar_t> wb;
    Both(Ctx &c, size_t pages = 4) : ra(&c, &lc, pages), rw(&c, &lc, pages), ctx(c), wb(256) {}
    void run(const char *s, int n, int depth) {
        ctx.progress++; ra.run(s, n, depth);
        if ((size_t)n > wb.size()) wb.resize(n);
        for (int i = 0; i < n; i++) wb[i] = (wchar_t)(unsigned char)s[i];
        rw.run(wb.data(), n, depth);
    }
};
void run(Ctx &ctx) {
    Both b(ctx); SetSizes z = parse_set_sizes(ctx, 0);
    w_method_set(ctx, z.k, [&](const char *s, int n, int) { b.run(s, n, 1); });
    brute_force_classes(ctx, z.L, [&](const char *s, int n, int) { b.run(s, n, 2); });
    ip6_product(ctx, z.ip_groups3 - 1, z.ip_groups4 - 1, [&](const Str &s) { b.run(s.data(), (int)s.size(), 2); });
    ipfuture_product(ctx, z.fut_len - 1, [&](const Str &s) { b.run(s.data(), (int)s.size(), 2); });
    if (z.octets) octet_product(ctx, [&](const Str &s) { b.run(s.data(), (int)s.size(), 1); });
    dotted_family(ctx, [&](const Str &s) { b.run(s.data(), (int)s.size(), 2); });
    userinfo_ip_family(ctx, [&](const Str &s) { b.run(s.data(), (int)s.size(), 2); });
    // stretch family (long components): guard-placed, one trailing-context round, failing allocations at both ends and in the middle
    { Both bs(ctx, 520); uint64_t si = 0; stretch_family(ctx.secondary ? 0 : ctx.quick() ? 1 : 2, [&](const Str &s) { if (!ctx.mine(si++) || ctx.expired()) return;
        for (auto &x : { s, s + "%4", s + "[" }) { bs.run(x.data(), (int)x.size(), -1); ctx.st.count("stretch_family"); } });
      Local &a = b.lc, &c = bs.lc; a.strings += c.strings; a.parses += c.parses; a.contexts += c.contexts; a.splits += c.splits; a.oom_runs += c.oom_runs; a.fail_parses += c.fail_parses; a.ok_parses += c.ok_parses; a.placeholder_ranges += c.placeholder_ranges; }
    Local &l = b.lc;
    ctx.st.count("evaluations", l.parses + l.oom_runs); ctx.st.count("strings", l.strings); ctx.st.count("trailing_context_runs", l.contexts); ctx.st.count("split_point_runs", l.splits);
    ctx.st.count("oom_injections", l.oom_runs); ctx.st.count("failing_parses", l.fail_parses); ctx.st.count("succeeding_parses", l.ok_parses); ctx.st.count("placeholder_ranges", l.placeholder_ranges);
    if (ctx.worker == 0) { ctx.st.sample("//[1:2::3"); ctx.st.sample("a%4"); ctx.st.sample("s://u@[0::aF9:1.2.3.4]:80/p"); ctx.st.count("param_k", z.k); ctx.st.count("param_L", z.L); }
}
void replay(Ctx &ctx, const Str &enc) { Both b(ctx, 520); b.run(enc.data(), (int)enc.size(), enc.size() > 200 ? -1 : 2); }
Str coverage(const Ctx &, const Stats &st) {
    return jkv("states", DFA_NSTATES) + ", " + jkv("transitions", (uint64_t)(DFA_NSTATES - 1) * 256) + ", " + jkv("traces_validated_against_impl", st.get("strings")) + ", " +
           jkv("evaluations", st.get("evaluations")) + ", " + jkv("distinct_nontrivial", st.get("trailing_context_runs") + st.get("split_point_runs") + st.get("oom_injections")) + ", " +
           jkvs("rule", "cases = (string, placement) pairs: every string of the lighter C01 sets is parsed at the very end of a read-only mapping followed by an inaccessible page (any over-read or write faults), then in the middle of a buffer under each of 22 trailing contexts (one per byte class of the spec DFA, and NUL) and at every split point of the text; complete outcomes (code, error offset, all component offsets, host bytes) must coincide. Each parse uses a ledger allocator: no block may be live after a failure, the output may be freed repeatedly, and every allocation index is failed once and from-k-on. distinct_nontrivial = context runs + split runs + injected failures (each a distinct (string, placement/fault) pair by construction).") + ", " +
           jkv("strings", st.get("strings")) + ", " + jkv("trailing_context_runs", st.get("trailing_context_runs")) + ", " + jkv("split_point_runs", st.get("split_point_runs")) + ", " + jkv("oom_injections", st.get("oom_injections")) + ", " +
           jkv("failing_parses", st.get("failing_parses")) + ", " + jkv("succeeding_parses", st.get("succeeding_parses")) + ", " + jkv("placeholder_ranges", st.get("placeholder_ranges")) + ", " +
           jkv("k_extra_states", st.get("param_k")) + ", " + jkv("bruteforce_length", st.get("param_L")) + ", " + jkv("stretch_family_strings", st.get("stretch_family")) + ", " + jsamples(st);
}
Check chk = { "C03", "model_checking", run, replay, coverage, "a read one character past the range faults because the range ends at a PROT_NONE page; a write to the input faults because the library only sees a PROT_READ view|reads before `first` are not fenced (the buffer start is not guard-placed)" };
REGISTER_CHECK(chk);
}
