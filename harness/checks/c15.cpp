// C15 - a manager completed from malloc/free alone behaves like the C allocator.
// Explicit-state BFS over allocator-call sequences on the real uriCompleteMemoryManager result, against a boring model.
#include "../core.h"
#include "../mm.h"
#include <errno.h>
#include <deque>
#include <unordered_set>
#include <functional>

namespace {
struct Local { uint64_t states = 0, transitions = 0, replays = 0, backend_failures = 0, overflow_refusals = 0, max_depth = 0; std::map<Str, uint64_t> by_op; };
static const size_t SZ[] = { 0, 1, 7, 8, 24, 4096, (size_t)-1, (size_t)-1 - 7, (size_t)-1 - 8, ((size_t)-1) / 2 + 1, ((size_t)-1) / 3 * 2 + 44 };   // the last: any padding or rounding of it wraps to a small number
enum { NSZ = 11, MAXLIVE = 3 };
struct NM { size_t n, s; };
static const NM NMS[] = { { 0, 0 }, { 0, 5 }, { 5, 0 }, { 3, 5 }, { 1, 24 }, { (size_t)1 << 32, (size_t)1 << 32 }, { 3, ((size_t)-1) / 2 }, { (size_t)-1, 1 }, { 2, ((size_t)-1) / 2 + 1 }, { 1, (size_t)-1 }, { 7, 600 } };
enum { NNM = 11 };

// backend: only malloc and free, logs everything, can be told to fail the k-th malloc
struct Backend {
    UriMemoryManager mm; std::map<void *, size_t> live; std::vector<std::string> errors; uint64_t n_malloc, n_free; std::set<uint64_t> fail_idx;
    Backend() { mm.malloc = s_malloc; mm.free = s_free; mm.calloc = 0; mm.realloc = 0; mm.reallocarray = 0; mm.userData = this; n_malloc = n_free = 0; }
    static void *s_malloc(UriMemoryManager *m, size_t n) {
        Backend *b = (Backend *)m->userData; b->n_malloc++;
        if (b->fail_idx.count(b->n_malloc)) { errno = ENOMEM; return 0; }
        if (n > ((size_t)1 << 32)) { errno = ENOMEM; return 0; }       // like a real allocator
        char *raw = (char *)::malloc(n + 2 * RED); if (!raw) return 0;
        memset(raw, 0xCB, RED); memset(raw + RED, 0xA5, n); memset(raw + RED + n, 0xCB, RED); b->live[raw + RED] = n; return raw + RED;
    }
    enum { RED = 4352 };      // red zones around every backend block: an overrun is seen, not suffered
    void check_redzones() { for (auto &kv : live) { const unsigned char *p = (const unsigned char *)kv.first; for (int i = 1; i <= RED; i++) if (p[-i] != 0xCB) { errors.push_back("bytes in front of a backend block were overwritten"); return; } for (size_t i = 0; i < RED; i++) if (p[kv.second + i] != 0xCB) { errors.push_back(fmt("bytes behind a backend block of %zu bytes were overwritten (offset +%zu)", kv.second, i)); return; } } }
    static void s_free(UriMemoryManager *m, void *p) {
        Backend *b = (Backend *)m->userData; b->n_free++;
        auto it = b->live.find(p); if (it == b->live.end()) { b->errors.push_back("backend free() of a pointer it never returned (or twice)"); return; }
        b->check_redzones();
        memset(p, 0xDD, it->second); b->live.erase(it); ::free((char *)p - RED);
    }
    ~Backend() { for (auto &kv : live) ::free((char *)kv.first - RED); }
};
struct Slot { bool live; size_t size; unsigned char pat; char *p; };

// An operation: kind, slot, size index / nm index, backend answer for each backend malloc it makes (bit 0: first call fails)
struct Op { char kind; int slot; int arg; int fail; Str str() const { return fmt("%c%d.%d.%d", kind, slot, arg, fail); } };
static bool parse_op(const Str &s, Op &o) { if (s.size() < 2) return false; o.kind = s[0]; return sscanf(s.c_str() + 1, "%d.%d.%d", &o.slot, &o.arg, &o.fail) == 3; }

struct Machine {
    Backend be; UriMemoryManager mm; Slot slots[MAXLIVE]; int nfail;
    Machine() : nfail(0) { if (uriCompleteMemoryManager(&mm, &be.mm) != URI_SUCCESS) abort(); for (auto &s : slots) { s.live = false; s.size = 0; s.pat = 0; s.p = 0; } }
    static void fill(Slot &s, size_t from) { for (size_t i = from; i < s.size; i++) s.p[i] = (char)(s.pat + i * 7); }
    Str verify() {      // every live block still holds its pattern; blocks are disjoint
        for (int i = 0; i < MAXLIVE; i++) if (slots[i].live) {
            for (size_t k = 0; k < slots[i].size; k++) if (slots[i].p[k] != (char)(slots[i].pat + k * 7)) return fmt("content of live block %d damaged at offset %zu", i, k);
            for (int j = i + 1; j < MAXLIVE; j++) if (slots[j].live) { char *a = slots[i].p, *b = slots[j].p; if (a < b + (slots[j].size ? slots[j].size : 1) && b < a + (slots[i].size ? slots[i].size : 1)) return fmt("live blocks %d and %d overlap", i, j); }
        }
        be.check_redzones();
        if (!be.errors.empty()) return be.errors[0];
        return "";
    }
    // what the implementation keeps about a live block outside the caller's payload (the bytes of the backend block in front of the
    // pointer it handed out): part of the state, or two histories that differ only in this book-keeping would be merged
    Str hidden(const Slot &s) const { for (auto &kv : be.live) { const char *b0 = (const char *)kv.first; if (s.p >= b0 && s.p <= b0 + kv.second) { Str h; for (const char *q = b0; q < s.p; q++) h += fmt("%02x", (unsigned char)*q); return h; } } return "?"; }
    Str key() const { Str k; std::vector<Str> v; for (auto &s : slots) v.push_back(s.live ? fmt("%zu/", s.size) + hidden(s) : Str("-")); for (auto &x : v) k += x + ","; return k + fmt("f%d|b%zu", nfail, be.live.size()); }
    int free_slot() const { for (int i = 0; i < MAXLIVE; i++) if (!slots[i].live) return i; return -1; }
    // applies op; returns "" or a violation text; *na set when the op is not applicable in this state
    Str apply(const Op &o, bool *na) {
        *na = false; uint64_t m0 = be.n_malloc; be.fail_idx.clear();
        if (o.fail & 1) be.fail_idx.insert(m0 + 1); if (o.fail & 2) be.fail_idx.insert(m0 + 2);
        if (o.fail) nfail++;
        Str what; errno = 0;
        if (o.kind == 'm' || o.kind == 'c') {
            int t = free_slot(); if (t < 0) { *na = true; return ""; }
            size_t want; bool overflow = false; void *p;
            if (o.kind == 'm') { want = SZ[o.arg]; p = mm.malloc(&mm, want); }
            else { const NM &nm = NMS[o.arg]; overflow = nm.s && nm.n > (size_t)-1 / nm.s; want = nm.n * nm.s; p = mm.calloc(&mm, nm.n, nm.s); }
            bool backend_failed = be.n_malloc > m0 && be.fail_idx.count(m0 + 1);
            bool too_big = want > (size_t)-1 - sizeof(size_t) || want + sizeof(size_t) > ((size_t)1 << 32);
            if (overflow || too_big || backend_failed) {
                if (p) what = "allocation succeeded although the size overflows / the backend failed";
                else if ((overflow || want > (size_t)-1 - sizeof(size_t)) && errno != ENOMEM) what = fmt("overflowing request refused with errno=%d, expected ENOMEM", errno);
                if (overflow && be.n_malloc != m0) what = "overflowing calloc reached the backend";
            } else if (!p) what = "allocation failed without reason";
            else {
                Slot &s = slots[t]; s.live = true; s.size = want; s.pat = (unsigned char)(17 * (t + 1) + be.n_malloc); s.p = (char *)p;
                if (o.kind == 'c') for (size_t i = 0; i < want; i++) if (s.p[i] != 0) { what = "calloc memory is not zeroed"; break; }
                fill(s, 0);
            }
            return what;
        }
        if (o.kind == 'f') {
            if (o.slot < 0) { mm.free(&mm, 0); if (be.n_malloc != m0) what = "free(NULL) reached the backend"; return what; }
            if (!slots[o.slot].live) { *na = true; return ""; }
            uint64_t f0 = be.n_free; mm.free(&mm, slots[o.slot].p); slots[o.slot].live = false;
            if (be.n_free != f0 + 1) what = "free() did not release exactly one backend block";
            return what;
        }
        if (o.kind == 'r' || o.kind == 'a') {
            size_t want; bool overflow = false;
            if (o.kind == 'r') want = SZ[o.arg]; else { const NM &nm = NMS[o.arg]; overflow = nm.s && nm.n > (size_t)-1 / nm.s; want = nm.n * nm.s; }
            if (o.slot >= 0 && !slots[o.slot].live) { *na = true; return ""; }
            int t = o.slot >= 0 ? o.slot : free_slot(); if (t < 0) { *na = true; return ""; }
            Slot old = slots[t]; void *op = o.slot >= 0 ? old.p : 0;
            uint64_t f0 = be.n_free;
            void *p = o.kind == 'r' ? mm.realloc(&mm, op, want) : mm.reallocarray(&mm, op, NMS[o.arg].n, NMS[o.arg].s);
            if (overflow) { if (p) what = "reallocarray succeeded although nmemb*size overflows"; else if (errno != ENOMEM) what = fmt("overflowing reallocarray: errno=%d, expected ENOMEM", errno); if (be.n_malloc != m0 || be.n_free != f0) what = "overflowing reallocarray touched the backend"; return what; }
            if (op && want == 0) { if (p) what = "realloc(p, 0) returned a block"; if (be.n_free != f0 + 1) what = "realloc(p, 0) did not free the block"; slots[t].live = false; return what; }
            bool too_big = want > (size_t)-1 - sizeof(size_t) || want + sizeof(size_t) > ((size_t)1 << 32);
            bool grows = !op || want > old.size;
            bool backend_failed = grows && be.n_malloc > m0 && be.fail_idx.count(m0 + 1);
            if (grows && (too_big || backend_failed)) {
                if (p) what = "reallocation succeeded although it cannot"; else if (op && be.n_free != f0) what = "failed reallocation released the old block";
                return what;       // old block (if any) stays as it was; verify() checks its content
            }
            if (!p) return "reallocation failed without reason";
            Slot &s = slots[t]; s.p = (char *)p; s.live = true;
            size_t keep = op ? (old.size < want ? old.size : want) : 0;
            for (size_t i = 0; i < keep; i++) if (s.p[i] != (char)(old.pat + i * 7)) return fmt("reallocation lost the common prefix at offset %zu", i);
            if (!op) { s.pat = (unsigned char)(29 * (t + 1) + be.n_malloc); s.size = want; fill(s, 0); }
            else { s.size = want; s.pat = old.pat; fill(s, keep); }
            if (op && p != op && be.n_free != f0 + 1) return "reallocation moved the block but did not release the old backend block exactly once";
            if (op && p == op && be.n_free != f0) return "reallocation kept the block in place but released a backend block";
            return "";
        }
        *na = true; return "";
    }
    // at the end of a history: free everything, nothing may stay allocated
    Str drain() { for (auto &s : slots) if (s.live) { mm.free(&mm, s.p); s.live = false; } if (!be.live.empty()) return fmt("%zu backend block(s) still allocated after the caller freed everything", be.live.size()); if (!be.errors.empty()) return be.errors[0]; return ""; }
};


// ---- giant family: blocks of 4 GiB and more -------------------------------------------------------------------------------------
// The BFS backend refuses anything above 4 GiB, so sizes that do not fit 32 bits never reach the decorator's arithmetic and copy lengths.
// Here the backend hands out address space only (mmap, MAP_NORESERVE), contents are checked on a sparse set of offsets (the first 16 KiB,
// the last 4 KiB, and the neighbourhood of offset 2^32), and ALL operation sequences up to length 3 over a small alphabet are run.
// Growing a block that is already giant is left out (it would copy 4 GiB for real).
#include <sys/mman.h>
struct GBackend {
    UriMemoryManager mm; std::map<char *, std::pair<size_t, std::pair<char *, size_t> > > live; /* block -> (n, (mapping, length)) */ std::vector<std::string> errors; uint64_t n_malloc, n_free;
    GBackend() { mm.malloc = s_malloc; mm.free = s_free; mm.calloc = 0; mm.realloc = 0; mm.reallocarray = 0; mm.userData = this; n_malloc = n_free = 0; }
    static void *s_malloc(UriMemoryManager *m, size_t n) {
        GBackend *b = (GBackend *)m->userData; b->n_malloc++;
        if (n > ((size_t)1 << 36)) { errno = ENOMEM; return 0; }
        size_t pg = 4096, body = (n + pg - 1) / pg * pg, len = body + 2 * pg;
        char *raw = (char *)mmap(0, len, PROT_READ | PROT_WRITE, MAP_PRIVATE | MAP_ANONYMOUS | MAP_NORESERVE, -1, 0); if (raw == (char *)MAP_FAILED) { errno = ENOMEM; return 0; }
        mprotect(raw, pg, PROT_NONE); mprotect(raw + pg + body, pg, PROT_NONE);
        char *blk = raw + pg + ((body - n) & ~(size_t)15);          // the block ends (up to 15 bytes) at the inaccessible page
        b->live[blk] = std::make_pair(n, std::make_pair(raw, len)); return blk;
    }
    static void s_free(UriMemoryManager *m, void *p) {
        GBackend *b = (GBackend *)m->userData; b->n_free++; auto it = b->live.find((char *)p);
        if (it == b->live.end()) { b->errors.push_back("backend free() of a pointer it never returned (or twice)"); return; }
        munmap(it->second.second.first, it->second.second.second); b->live.erase(it);
    }
    ~GBackend() { for (auto &kv : live) munmap(kv.second.second.first, kv.second.second.second); }
    size_t capacity(const char *p) const { for (auto &kv : live) if (p >= kv.first && p <= kv.first + kv.second.first) return kv.second.first; return 0; }
    // the backend block that holds [p, p+want)
    bool holds(const char *p, size_t want) const { for (auto &kv : live) if (p >= kv.first && p <= kv.first + kv.second.first && want <= (size_t)(kv.first + kv.second.first - p)) return true; return false; }
};
static const size_t G32 = (size_t)1 << 32;
static const size_t GSZ[] = { 100, 8192, G32 - 16, G32 - 8, G32 - 7, G32 + 100, G32 + 4096, 2 * G32 + 8192 };
static const NM GNM[] = { { 3, 1000 }, { 65537, 65536 }, { 3, (size_t)1 << 31 }, { (size_t)1 << 31, 2 } };
enum { NGSZ = 8, NGNM = 4, GSLOTS = 2 };
struct GOp { char kind; int slot; int arg; Str str() const { return fmt("%c%d.%d", kind, slot, arg); } };
static void sparse(size_t size, std::vector<std::pair<size_t, size_t> > &iv) {       // [from, to) intervals, ascending, inside [0, size)
    iv.clear(); auto add = [&](size_t a, size_t b) { if (b > size) b = size; if (a < b) iv.push_back(std::make_pair(a, b)); };
    if (size <= 65536) { add(0, size); return; }
    add(0, 16384); if (size > G32 - 64) add(G32 - 64, G32 + 4096 + 64 < size - 4096 ? G32 + 4096 + 64 : size - 4096); add(size - 4096, size);
}
struct GMachine {
    GBackend be; UriMemoryManager mm; Slot slots[GSLOTS];
    GMachine() { if (uriCompleteMemoryManager(&mm, &be.mm) != URI_SUCCESS) abort(); for (auto &s : slots) { s.live = false; s.size = 0; s.pat = 0; s.p = 0; } }
    static void fill(Slot &s) { std::vector<std::pair<size_t, size_t> > iv; sparse(s.size, iv); for (auto &r : iv) for (size_t i = r.first; i < r.second; i++) s.p[i] = (char)(s.pat + i * 7); }
    static Str check(const Slot &s, size_t upto, const char *where) { std::vector<std::pair<size_t, size_t> > iv; sparse(s.size, iv);
        for (auto &r : iv) for (size_t i = r.first; i < r.second && i < upto; i++) if (s.p[i] != (char)(s.pat + i * 7)) return fmt("%s at offset %zu of a block of %zu bytes", where, i, s.size); return ""; }
    Str verify() { for (auto &s : slots) if (s.live) { if (!be.holds(s.p, s.size)) return fmt("a live block of %zu bytes does not lie inside a backend block of sufficient size", s.size); Str w = check(s, s.size, "content of a live block damaged"); if (!w.empty()) return w; }
        if (slots[0].live && slots[1].live) { char *a = slots[0].p, *b = slots[1].p; if (a < b + slots[1].size && b < a + slots[0].size) return "live blocks overlap"; }
        return be.errors.empty() ? Str() : be.errors[0]; }
    Str apply(const GOp &o, bool *na) {
        *na = false; uint64_t m0 = be.n_malloc, f0 = be.n_free; errno = 0;
        if (o.kind == 'f') { if (!slots[o.slot].live) { *na = true; return ""; } mm.free(&mm, slots[o.slot].p); slots[o.slot].live = false; return be.n_free == f0 + 1 ? "" : "free() did not release exactly one backend block"; }
        size_t want = o.kind == 'a' ? GNM[o.arg].n * GNM[o.arg].s : GSZ[o.arg];
        if (o.kind == 'm') { int t = !slots[0].live ? 0 : !slots[1].live ? 1 : -1; if (t < 0 || o.slot != -1) { *na = true; return ""; }
            char *p = (char *)mm.malloc(&mm, want); if (!p) return fmt("malloc(%zu) failed although the backend can serve it", want);
            if (!be.holds(p, want)) { Slot &s = slots[t]; s.live = false; return fmt("malloc(%zu): the block handed out is not usable over its full size (the backend was asked for too little)", want); }
            Slot &s = slots[t]; s.live = true; s.size = want; s.pat = (unsigned char)(31 * (t + 1) + be.n_malloc); s.p = p; fill(s); (void)m0; return ""; }
        // realloc / reallocarray on a live slot or on NULL
        int t = o.slot; Slot old; old.live = false; old.size = 0; old.p = 0; old.pat = 0;
        if (t >= 0) { if (!slots[t].live) { *na = true; return ""; } old = slots[t]; size_t cap = be.capacity(old.p); /* growing beyond a giant backend block copies it for real: left out */ if (cap >= ((size_t)1 << 20) && want > cap - sizeof(size_t)) { *na = true; return ""; } }
        else { t = !slots[0].live ? 0 : !slots[1].live ? 1 : -1; if (t < 0) { *na = true; return ""; } }
        char *p = (char *)(o.kind == 'r' ? mm.realloc(&mm, old.p, want) : mm.reallocarray(&mm, old.p, GNM[o.arg].n, GNM[o.arg].s));
        if (!p) return fmt("reallocation to %zu bytes failed although the backend can serve it", want);
        if (!be.holds(p, want)) { slots[t].live = false; return fmt("reallocation to %zu bytes: the block handed out is not usable over its full size", want); }
        Slot &s = slots[t]; s.p = p; s.live = true;
        if (old.live) { size_t keep = old.size < want ? old.size : want; Slot probe = old; probe.p = p; Str w = check(probe, keep, "reallocation lost the common prefix"); if (!w.empty()) { s.size = want; return w; }
            if (p != old.p && be.n_free != f0 + 1) return "reallocation moved the block but did not release the old backend block exactly once";
            if (p == old.p && be.n_free != f0) return "reallocation kept the block in place but released a backend block"; s.pat = old.pat; }
        else s.pat = (unsigned char)(37 * (t + 1) + be.n_malloc);
        s.size = want; fill(s); return "";
    }
    Str drain() { for (auto &s : slots) if (s.live) { mm.free(&mm, s.p); s.live = false; } if (!be.live.empty()) return fmt("%zu backend block(s) still allocated after the caller freed everything", be.live.size()); return be.errors.empty() ? Str() : be.errors[0]; }
};
static std::vector<GOp> galphabet() { std::vector<GOp> v; for (int a = 0; a < NGSZ; a++) v.push_back(GOp{ 'm', -1, a });
    for (int s = -1; s < GSLOTS; s++) { if (s >= 0) v.push_back(GOp{ 'f', s, 0 }); for (int a = 0; a < NGSZ; a++) v.push_back(GOp{ 'r', s, a }); for (int a = 0; a < NGNM; a++) v.push_back(GOp{ 'a', s, a }); } return v; }
// runs one sequence; returns false when some step is not applicable
static bool giant_hist(const std::vector<GOp> &h, Str *viol) {
    int sig; if ((sig = GUARD_ENTER()) != 0) { *viol = fmt("%s while executing an allocator sequence with blocks of 4 GiB and more", signame(sig)); return true; }
    GMachine *m = new GMachine; bool ok = true;
    for (size_t i = 0; i < h.size() && ok; i++) { bool na; Str w = m->apply(h[i], &na); if (na) { ok = false; break; } if (w.empty()) w = m->verify(); if (!w.empty()) { *viol = w + " (after " + h[i].str() + ")"; break; } }
    if (ok && viol->empty()) { Str d = m->drain(); if (!d.empty()) *viol = d; }
    delete m; GUARD_LEAVE(); return ok;
}
static Str enc_ghist(const std::vector<GOp> &h) { Str e = "giant`"; for (size_t i = 0; i < h.size(); i++) { if (i) e += ";"; e += h[i].str(); } return e; }
static void giant_family(Ctx &ctx, Local &lc) {
    std::vector<GOp> ops = galphabet(); int depth = ctx.secondary ? 2 : 3; uint64_t idx = 0, ran = 0;
    std::vector<size_t> pos(1, 0); std::vector<GOp> h;
    // depth-first over all sequences; a prefix with an inapplicable step is cut
    std::function<void()> rec = [&]() {
        if (ctx.expired()) return;
        if (!h.empty()) { if (h.size() == 1 && !ctx.mine(idx++)) return; Str v; bool ok = giant_hist(h, &v); lc.replays++; ran++; ctx.progress++; if (!v.empty()) { ctx.violation("", enc_ghist(h), v); return; } if (!ok) return; }
        if ((int)h.size() >= depth) return;
        for (auto &o : ops) { h.push_back(o); rec(); h.pop_back(); }
    };
    rec(); ctx.st.count("giant_family_sequences", ran);
}
static std::vector<Op> alphabet() {
    std::vector<Op> v;
    for (int f = 0; f < 2; f++) { for (int a = 0; a < NSZ; a++) v.push_back(Op{ 'm', -1, a, f }); for (int a = 0; a < NNM; a++) v.push_back(Op{ 'c', -1, a, f }); }
    for (int s = -1; s < MAXLIVE; s++) { v.push_back(Op{ 'f', s, 0, 0 }); for (int f = 0; f < 2; f++) { for (int a = 0; a < NSZ; a++) v.push_back(Op{ 'r', s, a, f }); for (int a = 0; a < NNM; a++) v.push_back(Op{ 'a', s, a, f }); } }
    return v;
}
static Str enc_hist(const std::vector<Op> &h) { Str e; for (size_t i = 0; i < h.size(); i++) { if (i) e += ";"; e += h[i].str(); } return e; }

// replays a history on a fresh machine; returns the state key, "" when not applicable
static Str replay_hist(Ctx &ctx, Local &lc, const std::vector<Op> &h, Str *viol, int max_fail) {
    // the machine lives on the heap and is torn down INSIDE the guarded region: if the implementation has damaged the heap beyond the
    // red zones, the C library notices when the backend's blocks are released - that abort must be charged to this very history
    lc.replays++; int sig; SanWatch sw; Machine *mp = 0;
    if ((sig = GUARD_ENTER()) != 0) { *viol = fmt("%s while executing the allocator sequence or releasing the backend's blocks afterwards (heap damaged?)", signame(sig)); return ""; }
    mp = new Machine; Machine &m = *mp; Str k;
    for (size_t i = 0; i < h.size(); i++) {
        bool na; Str w = m.apply(h[i], &na);
        if (na || m.nfail > max_fail) { delete mp; GUARD_LEAVE(); return ""; }
        if (w.empty()) w = m.verify();
        if (!w.empty()) { if (i + 1 == h.size()) *viol = w + " (after " + h[i].str() + ")"; delete mp; GUARD_LEAVE(); return ""; }
    }
    k = m.key();
    Str d = mp->drain(); if (!d.empty()) *viol = d;
    delete mp; GUARD_LEAVE(); (void)ctx;
    if (sw.tripped()) *viol = "AddressSanitizer reported an invalid access";
    return k;
}

void run(Ctx &ctx) {
    Local lc; int depth = ctx.secondary ? 3 : ctx.quick() ? 4 : 6; std::vector<Op> ops = alphabet();
    struct Node { std::vector<Op> h; }; std::deque<Node> frontier; std::unordered_set<Str> seen;
    // the first operation is dealt to the workers; every worker runs its own BFS below it
    frontier.push_back(Node{}); seen.insert("root");
    while (!frontier.empty()) {
        if (ctx.expired()) break;
        Node nd = frontier.front(); frontier.pop_front(); ctx.progress++;
        if (nd.h.size() > lc.max_depth) lc.max_depth = nd.h.size();
        if ((int)nd.h.size() >= depth) continue;
        for (size_t oi = 0; oi < ops.size(); oi++) {
            if (nd.h.empty() && !ctx.mine(oi)) continue;
            std::vector<Op> h = nd.h; h.push_back(ops[oi]); Str v;
            Str k = replay_hist(ctx, lc, h, &v, 2);
            if (!v.empty()) ctx.violation("", enc_hist(h), v);
            if (k.empty()) continue;
            lc.transitions++; lc.by_op[Str(1, ops[oi].kind)]++; if (ops[oi].fail) lc.backend_failures++;
            // the key abstracts contents; histories with the same first op and the same key have the same futures
            Str kk = h[0].str() + "|" + k;
            if (seen.insert(kk).second) { lc.states++; frontier.push_back(Node{ h }); }
        }
    }
    giant_family(ctx, lc);
    // two completed managers over two different backends, alive at the same time: each must keep talking to its own backend
    if (ctx.worker == 0) {
        Machine a, b; int sig;
        if ((sig = GUARD_ENTER()) != 0) ctx.violation("", "two`0", fmt("%s with two completed managers alive", signame(sig)));
        else {
            void *pa = a.mm.malloc(&a.mm, 24), *pb = b.mm.calloc(&b.mm, 3, 8); Str what;
            if (!pa || !pb) what = "allocation failed";
            else if (a.be.live.size() != 1 || b.be.live.size() != 1) what = fmt("after one allocation each the backends hold %zu and %zu blocks", a.be.live.size(), b.be.live.size());
            else { pa = a.mm.realloc(&a.mm, pa, 4096); pb = b.mm.reallocarray(&b.mm, pb, 7, 600);
                   if (!pa || !pb || a.be.live.size() != 1 || b.be.live.size() != 1) what = "after growing both blocks the backends do not hold one block each";
                   a.mm.free(&a.mm, pa); b.mm.free(&b.mm, pb);
                   if (what.empty() && (!a.be.live.empty() || !b.be.live.empty())) what = fmt("after freeing both blocks the backends still hold %zu and %zu blocks", a.be.live.size(), b.be.live.size()); }
            if (what.empty() && (!a.be.errors.empty() || !b.be.errors.empty())) what = a.be.errors.empty() ? b.be.errors[0] : a.be.errors[0];
            GUARD_LEAVE(); lc.replays++;
            if (!what.empty()) ctx.violation("", "two`0", "two managers completed from different backends: " + what);
        }
    }
    // uriTestMemoryManager on the completed manager, and with each backend malloc failing in turn (documented codes only)
    int tsig = 0;
    if (ctx.worker == 0 && (tsig = GUARD_ENTER()) != 0) ctx.violation("", "test`0", fmt("%s in uriTestMemoryManager on a completed manager (or while releasing the backend's blocks afterwards)", signame(tsig)));
    else if (ctx.worker == 0) {
        Machine &m = *new Machine; int rc = uriTestMemoryManager(&m.mm);
        if (rc != URI_SUCCESS) ctx.violation("", "test`0", fmt("uriTestMemoryManager on a completed manager returned %d", rc));
        else if (!m.be.live.empty() || !m.be.errors.empty()) ctx.violation("", "test`0", "uriTestMemoryManager left backend blocks allocated or misused the backend");
        uint64_t n = m.be.n_malloc;
        for (uint64_t k = 1; k <= n; k++) { Machine &f = *new Machine; f.be.fail_idx.insert(k); int r = uriTestMemoryManager(&f.mm); lc.replays++; if (r != URI_ERROR_MEMORY_MANAGER_FAULTY && r != URI_SUCCESS) ctx.violation("", fmt("test`%llu", (unsigned long long)k), fmt("uriTestMemoryManager returned %d when backend malloc %llu failed", r, (unsigned long long)k)); if (!f.be.errors.empty()) ctx.violation("", fmt("test`%llu", (unsigned long long)k), f.be.errors[0]); delete &f; }
        delete &m; GUARD_LEAVE();
    }
    ctx.st.count("states", lc.states); ctx.st.count("transitions", lc.transitions); ctx.st.count("evaluations", lc.replays); ctx.st.count("transitions_with_backend_failure", lc.backend_failures);
    for (auto &kv : lc.by_op) ctx.st.count("op_" + kv.first, kv.second);
    ctx.st.distinct("max_depth", fmt("%llu", (unsigned long long)lc.max_depth));
    if (ctx.worker == 0) { ctx.st.count("alphabet", ops.size()); ctx.st.sample("m-1.4.0;r0.5.1;a0.3.0;f0.0.0  (malloc 24; realloc to 4096 with backend failure; reallocarray 3x5; free)"); ctx.st.sample("c-1.5.0  (calloc 2^32 x 2^32)"); ctx.st.sample("r-1.6.0  (realloc(NULL, SIZE_MAX))"); }
}
void replay(Ctx &ctx, const Str &enc) {
    Local lc; if (enc.compare(0, 3, "two") == 0) { Machine a, b; void *pa = a.mm.malloc(&a.mm, 24), *pb = b.mm.calloc(&b.mm, 3, 8); bool bad = !pa || !pb || a.be.live.size() != 1 || b.be.live.size() != 1; if (pa) a.mm.free(&a.mm, pa); if (pb) b.mm.free(&b.mm, pb);
        if (bad || !a.be.live.empty() || !b.be.live.empty() || !a.be.errors.empty() || !b.be.errors.empty()) ctx.violation("", enc, "two managers completed from different backends do not keep to their own backend"); return; }
    if (enc.compare(0, 4, "test") == 0) { int sig; if ((sig = GUARD_ENTER()) != 0) { ctx.violation("", enc, fmt("%s in uriTestMemoryManager on a completed manager", signame(sig))); return; }
        Machine *m = new Machine; int rc = uriTestMemoryManager(&m->mm); if (rc != URI_SUCCESS) ctx.violation("", enc, fmt("uriTestMemoryManager returned %d", rc)); delete m; GUARD_LEAVE(); return; }
    if (enc.compare(0, 6, "giant`") == 0) { std::vector<GOp> g; for (auto &t : split(enc.substr(6), ';')) { GOp o; if (t.size() >= 2 && sscanf(t.c_str() + 1, "%d.%d", &o.slot, &o.arg) == 2) { o.kind = t[0]; g.push_back(o); } } Str v; giant_hist(g, &v); if (!v.empty()) ctx.violation("", enc, v); return; }
    std::vector<Op> h; for (auto &s : split(enc, ';')) { Op o; if (parse_op(s, o)) h.push_back(o); } Str v; replay_hist(ctx, lc, h, &v, 99); if (!v.empty()) ctx.violation("", enc, v);
}
Str coverage(const Ctx &, const Stats &st) {
    uint64_t md = 0; auto it = st.sets.find("max_depth"); if (it != st.sets.end()) for (auto &s : it->second) md = std::max<uint64_t>(md, strtoull(s.c_str(), 0, 10));
    return jkv("states", st.get("states")) + ", " + jkv("transitions", st.get("transitions")) + ", " + jkv("traces_validated_against_impl", st.get("evaluations")) + ", " + jkv("evaluations", st.get("evaluations")) + ", " + jkv("distinct_nontrivial", st.get("states")) + ", " +
           jkv("max_depth", md) + ", " + jkv("alphabet_size", st.get("alphabet")) + ", " + jkv("transitions_with_backend_failure", st.get("transitions_with_backend_failure")) + ", " +
           jkv("transitions_malloc", st.get("op_m")) + ", " + jkv("transitions_calloc", st.get("op_c")) + ", " + jkv("transitions_realloc", st.get("op_r")) + ", " + jkv("transitions_reallocarray", st.get("op_a")) + ", " + jkv("transitions_free", st.get("op_f")) + ", " + jkv("giant_family_sequences", st.get("giant_family_sequences")) + ", " +
           jkvs("rule", "explicit-state BFS on the manager returned by uriCompleteMemoryManager over a recording malloc/free-only backend: alphabet = malloc(s), calloc(n,s), realloc(slot|NULL, s), reallocarray(slot|NULL, n, s), free(slot|NULL) with s in {0,1,7,8,24,4096,SIZE_MAX,SIZE_MAX-7,SIZE_MAX-8,SIZE_MAX/2+1}, 11 (n,s) pairs incl. exact overflows, up to 3 live blocks, and for each call the choice 'backend malloc succeeds / fails' (at most 2 failures per history); a state is (sizes of live blocks, failures used, backend blocks) below its first operation; every history is replayed on a fresh manager; after every call the boring model is compared (pattern of every live block, disjointness, zeroing, prefix preservation, ENOMEM on overflow, backend free exactly once) and at the end of every history everything is freed and the backend must be empty.") + ", " + jsamples(st);
}
Check chk = { "C15", "model_checking", run, replay, coverage, "block contents are checked with per-slot byte patterns; the state key abstracts contents (two histories with the same first call, the same live sizes, failures used and backend block count have the same futures)|in the BFS, requests above 4 GiB are refused by the test backend like by a real allocator; blocks of 4 GiB and more are exercised by the separate giant family (all sequences up to length 3 over 8 sizes and 4 nmemb/size pairs around 2^32, address space only, contents checked on sparse offsets; growing an already giant block is left out)" };
REGISTER_CHECK(chk);
}
