// Definitions of the allocator entry points that the library's objects reference after
// `objcopy --redefine-sym malloc=vf_lib_malloc ...`.  They forward to libc and keep a log.
#include "mm.h"
#include <unordered_set>
LibcLog g_libc;
static std::unordered_set<void *> &live() { static std::unordered_set<void *> s; return s; }
static bool inject() {
    g_libc.n_requests++;
    bool f = (g_libc.fail_at && g_libc.n_requests == g_libc.fail_at) || (g_libc.fail_at2 && g_libc.n_requests == g_libc.fail_at2) || (g_libc.fail_from && g_libc.n_requests >= g_libc.fail_from);
    if (f) g_libc.n_failed++;
    return f;
}
extern "C" {
void *vf_lib_malloc(size_t n) { g_libc.n_malloc++; if (inject()) return 0; void *p = malloc(n); if (p) { live().insert(p); g_libc.balance++; } return p; }
void *vf_lib_calloc(size_t a, size_t b) { g_libc.n_calloc++; if (inject()) return 0; void *p = calloc(a, b); if (p) { live().insert(p); g_libc.balance++; } return p; }
void *vf_lib_realloc(void *o, size_t n) {
    g_libc.n_realloc++; if (n && inject()) return 0; if (o) { live().erase(o); g_libc.balance--; }
    void *p = realloc(o, n); if (p) { live().insert(p); g_libc.balance++; } else if (o && n) { live().insert(o); g_libc.balance++; } return p;
}
void *vf_lib_reallocarray(void *o, size_t a, size_t b) {
    g_libc.n_reallocarray++; if (b && a > (size_t)-1 / b) return 0; g_libc.n_realloc--; return vf_lib_realloc(o, a * b);
}
void vf_lib_free(void *p) {
    g_libc.n_free++; if (!p) return; g_libc.n_free_nonnull++;
    if (!live().count(p)) { g_libc.bad_free++; return; }   // freeing something libc did not hand to the library: flagged, not executed
    live().erase(p); g_libc.balance--; free(p);
}
}
