// Free-running ThreadSanitizer pass for C20: the same bodies on real threads, no scheduler (its hand-offs would be
// happens-before edges that blind the detector).  Not exhaustive; reports data races and results differing from solo runs.
#define VCHECK_NO_MAIN 1
#include "../core.cpp"
#include "../ref.cpp"
#include "../checks/conc_bodies.h"
#include <pthread.h>
#include <atomic>
LibcLog g_libc;
extern "C" {   // the library objects reference the renamed allocator entry points
void *vf_lib_malloc(size_t n) { return malloc(n); }
void *vf_lib_calloc(size_t a, size_t b) { return calloc(a, b); }
void *vf_lib_realloc(void *p, size_t n) { return realloc(p, n); }
void *vf_lib_reallocarray(void *p, size_t a, size_t b) { return reallocarray(p, a, b); }
void vf_lib_free(void *p) { free(p); }
}
static ConcWorld *W; static std::vector<std::vector<Str> > solo; static std::atomic<long> mismatches(0), calls(0); static int rounds = 300;
static void *worker(void *arg) {
    long id = (long)arg;
    for (int r = 0; r < rounds; r++) for (int b = 0; b < CONC_NBODIES; b++) { int body = (int)((b + id + r) % CONC_NBODIES); Str got = W->run_body(body, (int)(id % 3)); calls++; if (got != solo[body][id % 3]) mismatches++; }
    return 0;
}
int main(int argc, char **argv) {
    int nthreads = argc > 1 ? atoi(argv[1]) : 16; if (argc > 2) rounds = atoi(argv[2]);
    ConcWorld world(0); W = &world;
    for (int b = 0; b < CONC_NBODIES; b++) { solo.push_back(std::vector<Str>()); for (int sl = 0; sl < 3; sl++) solo[b].push_back(world.run_body(b, sl)); }
    std::vector<pthread_t> th(nthreads);
    for (long i = 0; i < nthreads; i++) pthread_create(&th[i], 0, worker, (void *)i);
    for (int i = 0; i < nthreads; i++) pthread_join(th[i], 0);
    printf("TSAN-PASS threads=%d rounds=%d calls=%ld mismatches=%ld\n", nthreads, rounds, calls.load(), mismatches.load());
    return mismatches.load() ? 3 : 0;
}
