// Core of the exploration harness: worker pool, statistics, violations, crash capture.
#pragma once
#include <stdint.h>
#include <stddef.h>
#include <string.h>
#include <stdlib.h>
#include <stdio.h>
#include <setjmp.h>
#include <signal.h>
#include <string>
#include <vector>
#include <map>
#include <set>
#include <functional>

typedef std::string Str;

// ---------------------------------------------------------------- text helpers
Str esc(const Str &bytes);               // printable-ASCII, JSON-safe, reversible
Str unesc(const Str &s);
Str jstr(const Str &s);                  // JSON string literal (with quotes) of an ASCII-safe string
std::vector<Str> split(const Str &s, char sep);
Str fmt(const char *f, ...) __attribute__((format(printf, 1, 2)));

// ---------------------------------------------------------------- statistics merged across workers
struct Stats {
    std::map<Str, uint64_t> counters;
    std::map<Str, std::set<Str> > sets;   // bounded
    std::vector<Str> samples;
    void count(const Str &k, uint64_t n = 1) { counters[k] += n; }
    void distinct(const Str &set, const Str &v) {
        std::set<Str> &s = sets[set];
        if (s.size() < 200000) s.insert(v);
    }
    void sample(const Str &s, size_t cap = 12) { if (samples.size() < cap) samples.push_back(s); }
    uint64_t get(const Str &k) const { std::map<Str, uint64_t>::const_iterator i = counters.find(k); return i == counters.end() ? 0 : i->second; }
    size_t nset(const Str &k) const { std::map<Str, std::set<Str> >::const_iterator i = sets.find(k); return i == sets.end() ? 0 : i->second.size(); }
    void merge(const Stats &o);
};

struct Violation {
    Str finding;   // classifier id ("" = unclassified => always a VIOLATION)
    Str enc;       // replayable case encoding
    Str detail;
};

struct Ctx {
    Str prop, tier;
    int worker = 0, nworkers = 1;
    bool replay = false;
    int bonus = getenv("VERIF_BONUS") ? atoi(getenv("VERIF_BONUS")) : 0;   // VERIF_BONUS: added to the main depth / length bound of a check (ad hoc deeper exploration; 0 in the registered tiers)
    bool secondary = false;     // sanitizer flavour pass: reduced sets
    double t_start = 0, t_deadline = 0;
    Stats st;
    std::vector<Violation> viols;
    std::map<Str, uint64_t> finding_counts;
    uint64_t n_viol_total = 0;
    bool cut = false;           // a deadline cut the enumeration short
    uint64_t progress = 0;      // bumped per case (watchdog)
    bool quick() const { return tier == "quick"; }
    bool mine(uint64_t idx) const { return (int)(idx % (uint64_t)nworkers) == worker; }
    bool expired();
    void violation(const Str &finding, const Str &enc, const Str &detail);
    // the oracle contradicted itself (e.g. the two recognisers disagree): the run is void, exit status 2
    void harness_error(const Str &what) { st.count("harness_errors"); if (st.nset("harness_error_examples") < 5) st.distinct("harness_error_examples", what); }
};

double now_s();

// ---------------------------------------------------------------- crash capture
// Usage:  int sig = 0; if ((sig = GUARD_ENTER()) == 0) { ...call library...; GUARD_LEAVE(); } else { ...crashed with sig... }
extern sigjmp_buf g_guard_jmp;
extern volatile int g_guard_armed;
extern volatile uint64_t *g_progress_ptr;
void guard_install();
#define GUARD_ENTER() (g_guard_armed = 1, sigsetjmp(g_guard_jmp, 1))
#define GUARD_LEAVE() (g_guard_armed = 0)
const char *signame(int sig);
// sanitizer flavour: number of AddressSanitizer reports so far (always 0 in the plain flavour)
extern volatile uint64_t g_san_errors;
struct SanWatch { uint64_t at; SanWatch() : at(g_san_errors) {} bool tripped() const { return g_san_errors != at; } };

// ---------------------------------------------------------------- checks
struct Check {
    const char *id;
    const char *level;                       // evidence level
    void (*run)(Ctx &);                      // enumerate this worker's share
    void (*replay)(Ctx &, const Str &enc);   // run one encoded case, reporting violations into ctx
    // produce the coverage object body (JSON members, no braces) from merged stats
    Str (*coverage)(const Ctx &, const Stats &);
    const char *assumptions;                 // '|' separated
};
void register_check(const Check &c);
#define REGISTER_CHECK(c) static struct Reg_##__LINE__ { Reg_##__LINE__() { register_check(c); } } reg_instance_##__LINE__

// JSON helpers for coverage()
Str jkv(const Str &k, uint64_t v);
Str jkvs(const Str &k, const Str &v);
Str jkvb(const Str &k, bool v);
Str jsamples(const Stats &st);
