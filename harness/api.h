// Character-type traits: one name for each A/W function pair.
#pragma once
extern "C" {
#include <uriparser/Uri.h>
#include <uriparser/UriIp4.h>
}
#include <wchar.h>
#include <string>
template <class C> struct Api;
#define SUF(x) x##A
#define CHR char
#include "api_body.inc"
#undef SUF
#undef CHR
#define SUF(x) x##W
#define CHR wchar_t
#include "api_body.inc"
#undef SUF
#undef CHR
