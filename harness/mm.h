// Ledger memory manager with failure injection, and recorders for libc calls made by library objects.
#pragma once
#include <stdint.h>
#include <stddef.h>
#include <stdlib.h>
#include <string.h>
#include <unordered_map>
#include <vector>
#include <string>
extern "C" {
#include <uriparser/Uri.h>
}

struct Ledger {
    UriMemoryManager mm;           // must stay first: userData points back to this
    struct Blk { size_t size; uint64_t seq; };
    std::unordered_map<void *, Blk> live;
    uint64_t n_requests;           // allocation requests seen (malloc/calloc/realloc/reallocarray that ask for memory)
    uint64_t n_malloc, n_calloc, n_realloc, n_reallocarray, n_free, n_free_null;
    // failure injection: request indices are 1-based
    uint64_t fail_at;              // fail exactly this request (0 = none)
    uint64_t fail_at2;             // and this one (0 = none)
    uint64_t fail_from;            // fail every request >= this (0 = none)
    uint64_t n_failed;             // injected failures actually consumed
    // errors
    std::vector<std::string> errors;
    size_t bytes_live;
    static const uint64_t HEAD = 0xA11C0DE5A11C0DE5ull, TAIL = 0x7A117A117A117A11ull;
    static const size_t PRE = 16, POST = 8;

    Ledger() { mm.malloc = s_malloc; mm.calloc = s_calloc; mm.realloc = s_realloc; mm.reallocarray = s_reallocarray; mm.free = s_free; mm.userData = this; reset(); }
    void reset() {
        for (auto &kv : live) ::free((char *)kv.first - PRE);
        live.clear(); n_requests = n_malloc = n_calloc = n_realloc = n_reallocarray = n_free = n_free_null = 0;
        fail_at = fail_at2 = fail_from = n_failed = 0; errors.clear(); bytes_live = 0;
    }
    void clear_injection() { fail_at = fail_at2 = fail_from = 0; }
    bool should_fail() {
        n_requests++;
        bool f = (fail_at && n_requests == fail_at) || (fail_at2 && n_requests == fail_at2) || (fail_from && n_requests >= fail_from);
        if (f) n_failed++;
        return f;
    }
    void *give(size_t size, bool zero) {
        if (size > ((size_t)1 << 40)) return 0;   // absurd request: behave like a real allocator
        char *raw = (char *)::malloc(PRE + size + POST); if (!raw) return 0;
        memcpy(raw, &HEAD, 8); memcpy(raw + 8, &size, 8);
        memset(raw + PRE, zero ? 0 : 0xA5, size);
        memcpy(raw + PRE + size, &TAIL, 8);
        void *p = raw + PRE; Blk b; b.size = size; b.seq = n_requests; live[p] = b; bytes_live += size; return p;
    }
    bool check_block(void *p, const char *who) {
        auto it = live.find(p);
        if (it == live.end()) { errors.push_back(std::string(who) + ": pointer not owned by this manager (never returned, interior, or already freed)"); return false; }
        char *raw = (char *)p - PRE; uint64_t h, t;
        memcpy(&h, raw, 8); memcpy(&t, raw + PRE + it->second.size, 8);
        if (h != HEAD) errors.push_back(std::string(who) + ": header canary damaged (underflow)");
        if (t != TAIL) errors.push_back(std::string(who) + ": trailer canary damaged (overflow)");
        return true;
    }
    void take(void *p, const char *who) {
        if (!check_block(p, who)) return;
        auto it = live.find(p); size_t sz = it->second.size; bytes_live -= sz; live.erase(it);
        memset(p, 0xDD, sz); ::free((char *)p - PRE);
    }
    void check_all_canaries() { std::vector<void *> ps; for (auto &kv : live) ps.push_back(kv.first); for (void *p : ps) check_block(p, "sweep"); }
    static Ledger *self(UriMemoryManager *m) { return (Ledger *)m->userData; }
    static void *s_malloc(UriMemoryManager *m, size_t n) { Ledger *L = self(m); L->n_malloc++; if (L->should_fail()) return 0; return L->give(n, false); }
    static void *s_calloc(UriMemoryManager *m, size_t a, size_t b) {
        Ledger *L = self(m); L->n_calloc++; if (L->should_fail()) return 0;
        if (b && a > (size_t)-1 / b) return 0; return L->give(a * b, true);
    }
    static void *s_realloc(UriMemoryManager *m, void *p, size_t n) {
        Ledger *L = self(m); L->n_realloc++;
        if (!p) { if (L->should_fail()) return 0; return L->give(n, false); }
        if (n == 0) { L->take(p, "realloc(p,0)"); return 0; }
        if (L->should_fail()) return 0;
        if (!L->check_block(p, "realloc")) return 0;
        size_t old = L->live[p].size; void *q = L->give(n, false); if (!q) return 0;
        memcpy(q, p, old < n ? old : n); L->take(p, "realloc"); return q;
    }
    static void *s_reallocarray(UriMemoryManager *m, void *p, size_t a, size_t b) {
        Ledger *L = self(m); L->n_reallocarray++; L->n_realloc--;
        if (b && a > (size_t)-1 / b) return 0; return s_realloc(m, p, a * b);
    }
    static void s_free(UriMemoryManager *m, void *p) { Ledger *L = self(m); if (!p) { L->n_free_null++; return; } L->n_free++; L->take(p, "free"); }
};

// libc calls made from the library's own objects (renamed by objcopy to vf_lib_*): counted here.
struct LibcLog { uint64_t n_malloc, n_calloc, n_realloc, n_reallocarray, n_free, n_free_nonnull; long balance;
    uint64_t n_requests, fail_at, fail_at2, fail_from, n_failed; uint64_t bad_free; };
extern LibcLog g_libc;
static inline uint64_t libc_alloc_calls() { return g_libc.n_malloc + g_libc.n_calloc + g_libc.n_realloc + g_libc.n_reallocarray; }
