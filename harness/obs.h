// Type-independent observations of library objects.
#pragma once
#include "api.h"
#include "core.h"
#include "ref.h"
#include <limits.h>

template <class C> std::basic_string<C> widen(const Str &s) {
    std::basic_string<C> o; o.reserve(s.size());
    for (size_t i = 0; i < s.size(); i++) o += (C)(unsigned char)s[i];
    return o;
}
template <class C> Str narrow(const C *f, const C *l) {
    Str o; for (const C *p = f; p < l; p++) { unsigned long v = (unsigned long)(typename std::make_unsigned<C>::type)*p; o += v < 256 ? (char)v : (char)0x1A; }
    return o;
}
template <class C> Str narrow(const std::basic_string<C> &s) { return narrow<C>(s.data(), s.data() + s.size()); }

struct RangeObs {
    int kind;        // 0 absent (NULL/NULL), 1 present-empty, 2 non-empty, 3 malformed (one NULL, or first > afterLast)
    long off;        // offset (in characters) from the start of the input, LONG_MIN when not inside the input
    Str text;
    RangeObs() : kind(0), off(LONG_MIN) {}
    Str key() const { return kind == 0 ? Str("-") : kind == 3 ? Str("!") : "\"" + text + "\""; }
};
struct UriObs {
    RangeObs scheme, userinfo, host, port, query, fragment, ipfuture;
    int hostbits;                 // 1 ip4, 2 ip6, 4 ipFuture
    Str ip;                       // 4 or 16 bytes
    std::vector<RangeObs> segs;
    bool abs, owner, tail_ok, head_tail_consistent; int raw_abs, raw_owner;
    bool future_aliases_host;
    UriObs() : hostbits(0), abs(false), owner(false), tail_ok(true), head_tail_consistent(true), raw_abs(0), raw_owner(0), future_aliases_host(false) {}
    bool has_host() const { return host.kind != 0; }
    int hostkind() const {   // ref::HostKind, or -1 when inconsistent
        if (host.kind == 0) return hostbits == 0 ? ref::HK_NONE : -1;
        switch (hostbits) { case 0: return ref::HK_REGNAME; case 1: return ref::HK_IP4; case 2: return ref::HK_IP6; case 4: return ref::HK_FUTURE; }
        return -1;
    }
    Str path_text() const {   // the path as recomposition would write it
        Str p; bool lead = abs || (has_host() && !segs.empty());
        for (size_t i = 0; i < segs.size(); i++) { if (i || lead) p += "/"; p += segs[i].text; }
        if (segs.empty() && abs) p = "/";
        return p;
    }
    // canonical key: everything a later library call can observe, no addresses
    Str key() const {
        Str k = scheme.key() + "|" + userinfo.key() + "|" + host.key() + "|" + fmt("%d", hostbits) + ":" + esc(ip) + "|" + ipfuture.key() + (future_aliases_host ? "=" : "~") +
                "|" + port.key() + "|" + (abs ? "A" : "r") + (owner ? "O" : "b") + "|";
        for (size_t i = 0; i < segs.size(); i++) { if (i) k += "/"; k += segs[i].key(); }
        k += "|" + query.key() + "|" + fragment.key() + (tail_ok ? "" : "|TAIL!");
        return k;
    }
    // same without the owner flag and NULL-vs-placeholder details
    Str content_key() const {
        Str k = scheme.key() + "|" + userinfo.key() + "|" + host.key() + "|" + fmt("%d", hostbits) + ":" + esc(ip) + "|" + port.key() + "|" + (abs ? "A" : "r") + "|";
        for (size_t i = 0; i < segs.size(); i++) { if (i) k += "/"; k += segs[i].key(); }
        k += "|" + query.key() + "|" + fragment.key();
        return k;
    }
};

template <class C, class R> RangeObs observe_range(const R &r, const C *in_f, const C *in_l) {
    RangeObs o;
    if (r.first == 0 && r.afterLast == 0) { o.kind = 0; return o; }
    if (r.first == 0 || r.afterLast == 0 || r.first > r.afterLast) { o.kind = 3; return o; }
    o.kind = r.first == r.afterLast ? 1 : 2;
    if (in_f && r.first >= in_f && r.afterLast <= in_l) o.off = (long)(r.first - in_f);
    o.text = narrow<C>(r.first, r.afterLast);
    return o;
}

template <class C> UriObs observe(const typename Api<C>::Uri &u, const C *in_f = 0, const C *in_l = 0) {
    UriObs o;
    o.scheme = observe_range<C>(u.scheme, in_f, in_l); o.userinfo = observe_range<C>(u.userInfo, in_f, in_l);
    o.host = observe_range<C>(u.hostText, in_f, in_l); o.port = observe_range<C>(u.portText, in_f, in_l);
    o.query = observe_range<C>(u.query, in_f, in_l); o.fragment = observe_range<C>(u.fragment, in_f, in_l);
    o.ipfuture = observe_range<C>(u.hostData.ipFuture, in_f, in_l);
    o.future_aliases_host = u.hostData.ipFuture.first != 0 && u.hostData.ipFuture.first == u.hostText.first && u.hostData.ipFuture.afterLast == u.hostText.afterLast;
    if (u.hostData.ip4) { o.hostbits |= 1; o.ip.assign((const char *)u.hostData.ip4->data, 4); }
    if (u.hostData.ip6) { o.hostbits |= 2; o.ip.assign((const char *)u.hostData.ip6->data, 16); }
    if (o.ipfuture.kind != 0) o.hostbits |= 4;
    const typename Api<C>::Seg *last = 0; int guard = 0;
    for (const typename Api<C>::Seg *s = u.pathHead; s && guard < 50000000; s = s->next, guard++) { o.segs.push_back(observe_range<C>(s->text, in_f, in_l)); last = s; }
    o.tail_ok = (u.pathTail == last);
    o.head_tail_consistent = ((u.pathHead == 0) == (u.pathTail == 0));
    o.raw_abs = u.absolutePath; o.raw_owner = u.owner; o.abs = u.absolutePath != 0; o.owner = u.owner != 0;
    return o;
}

// recomposed text via the library; rc_out receives the return code
template <class C> Str to_text(const typename Api<C>::Uri &u, int *rc_out = 0) {
    int need = -1; int rc = Api<C>::ToStringCharsRequired(&u, &need);
    if (rc != URI_SUCCESS || need < 0) { if (rc_out) *rc_out = rc ? rc : -1; return Str(); }
    std::basic_string<C> buf((size_t)need + 1, (C)0); int written = -1;
    rc = Api<C>::ToString(&buf[0], &u, need + 1, &written);
    if (rc_out) *rc_out = rc;
    if (rc != URI_SUCCESS) return Str();
    size_t n = 0; while (n < buf.size() && buf[n]) n++;
    return narrow<C>(buf.data(), buf.data() + n);
}
