// Serialising scheduler for preemption-bounded exploration.  Threads of the harness are user-level contexts:
// exactly one runs at a time and control only changes hands at scheduling points, so a schedule is the list
// of choices taken at those points and replaying the list replays the execution exactly.
#pragma once
#include <ucontext.h>
#include <vector>
#include <functional>
#include <stdint.h>
#include <stdlib.h>

struct SchedPoint { uint8_t n_enabled; uint8_t chosen; uint8_t running_enabled; };

struct Sched {
    enum { MAXT = 3, STACK = 1 << 18 };
    ucontext_t main_ctx, ctx[MAXT]; char *stacks[MAXT]; bool done[MAXT], started[MAXT]; int nthreads, cur;
    std::vector<uint8_t> prefix; size_t pos; std::vector<SchedPoint> trace; bool active; uint64_t points_seen; bool diverged;
    std::function<void(int)> body;
    static Sched *&self() { static Sched *s = 0; return s; }
    Sched() : nthreads(0), cur(-1), pos(0), active(false), points_seen(0), diverged(false) { for (int i = 0; i < MAXT; i++) stacks[i] = (char *)malloc(STACK); }
    ~Sched() { for (int i = 0; i < MAXT; i++) free(stacks[i]); }

    static void tramp(int id) { Sched *s = self(); s->body(id); s->done[id] = true; s->finish(); }
    // enabled threads in canonical order: the running one first (if it can continue), then ascending ids
    int enabled(int *out, bool include_cur) const { int n = 0; if (include_cur && cur >= 0 && !done[cur]) out[n++] = cur; for (int i = 0; i < nthreads; i++) if (!done[i] && !(include_cur && i == cur)) out[n++] = i; return n; }
    int choose(bool running_enabled) {
        int en[MAXT]; int n = enabled(en, running_enabled); if (n == 0) return -1;
        int c = 0; if (pos < prefix.size()) { c = prefix[pos]; if (c >= n) { diverged = true; c = 0; } }
        pos++; SchedPoint p; p.n_enabled = (uint8_t)n; p.chosen = (uint8_t)c; p.running_enabled = running_enabled ? 1 : 0; trace.push_back(p);
        return en[c];
    }
    void switch_to(int from, int to) {
        cur = to;
        if (!started[to]) { started[to] = true; getcontext(&ctx[to]); ctx[to].uc_stack.ss_sp = stacks[to]; ctx[to].uc_stack.ss_size = STACK; ctx[to].uc_link = &main_ctx; makecontext(&ctx[to], (void (*)())tramp, 1, to); }
        if (from >= 0) swapcontext(&ctx[from], &ctx[to]); else swapcontext(&main_ctx, &ctx[to]);
    }
    // called by the running thread at every scheduling point
    void point() {
        if (!active) return;
        points_seen++;
        int en[MAXT]; if (enabled(en, true) < 2) return;          // nobody to switch to: not a choice
        int me = cur, next = choose(true);
        if (next != me) switch_to(me, next);
    }
    void finish() {       // the running thread ended
        int me = cur, next = choose(false);
        if (next < 0) { active = false; cur = -1; setcontext(&main_ctx); }
        cur = next; (void)me;
        if (!started[next]) { started[next] = true; getcontext(&ctx[next]); ctx[next].uc_stack.ss_sp = stacks[next]; ctx[next].uc_stack.ss_size = STACK; ctx[next].uc_link = &main_ctx; makecontext(&ctx[next], (void (*)())tramp, 1, next); }
        setcontext(&ctx[next]);
    }
    // runs all threads to completion under the given choice prefix (then choice 0 everywhere)
    void run(int n, const std::vector<uint8_t> &pre, std::function<void(int)> b) {
        self() = this; nthreads = n; body = b; prefix = pre; pos = 0; trace.clear(); diverged = false; cur = -1;
        for (int i = 0; i < MAXT; i++) { done[i] = i >= n; started[i] = false; }
        active = true;
        int first = choose(false);
        switch_to(-1, first);
        active = false;
    }
};
