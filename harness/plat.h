// Memory fences: guard-placed buffers (end of buffer == start of a PROT_NONE page),
// read-only views (a second, write-protected mapping of the same pages), revocable mappings.
#pragma once
#include <sys/mman.h>
#include <unistd.h>
#include <stdint.h>
#include <string.h>
#include <stdio.h>
#include <stdlib.h>
#ifndef MFD_CLOEXEC
#define MFD_CLOEXEC 1U
#endif
extern "C" int memfd_create(const char *, unsigned int);

static inline void plat_die(const char *what) { perror(what); abort(); }

// A buffer whose end abuts an inaccessible page.  `rw` is the harness' writable view,
// `ro` is a read-only view of the same bytes followed by the guard page: the library gets `ro`
// pointers, so a write to the input or a read past its end faults on the exact instruction.
struct FenceBuf {
    char *rw; char *ro; size_t bytes;
    explicit FenceBuf(size_t pages = 4) {
        long ps = sysconf(_SC_PAGESIZE); bytes = pages * ps;
        int fd = memfd_create("fence", MFD_CLOEXEC); if (fd < 0) plat_die("memfd_create");
        if (ftruncate(fd, bytes) != 0) plat_die("ftruncate");
        rw = (char *)mmap(0, bytes, PROT_READ | PROT_WRITE, MAP_SHARED, fd, 0); if (rw == MAP_FAILED) plat_die("mmap rw");
        char *res = (char *)mmap(0, bytes + ps, PROT_NONE, MAP_PRIVATE | MAP_ANONYMOUS, -1, 0); if (res == MAP_FAILED) plat_die("mmap reserve");
        ro = (char *)mmap(res, bytes, PROT_READ, MAP_SHARED | MAP_FIXED, fd, 0); if (ro == MAP_FAILED) plat_die("mmap ro");
        close(fd);
        memset(rw, 0x5a, bytes);
    }
    // place n bytes so that they end exactly at the guard page; returns read-only pointer
    const void *put_end(const void *src, size_t n) { memcpy(rw + bytes - n, src, n); return ro + bytes - n; }
    // place n bytes at offset `at` from the start (middle placement)
    const void *put_at(size_t at, const void *src, size_t n) { memcpy(rw + at, src, n); return ro + at; }
    char *rw_of(const void *ro_ptr) { return rw + ((const char *)ro_ptr - ro); }
};

// A writable buffer that ends at a guard page (for outputs): writing one byte too many faults.
struct OutBuf {
    char *base; size_t bytes;
    explicit OutBuf(size_t pages = 16) {
        long ps = sysconf(_SC_PAGESIZE); bytes = pages * ps;
        base = (char *)mmap(0, bytes + ps, PROT_READ | PROT_WRITE, MAP_PRIVATE | MAP_ANONYMOUS, -1, 0); if (base == MAP_FAILED) plat_die("mmap out");
        if (mprotect(base + bytes, ps, PROT_NONE) != 0) plat_die("mprotect");
    }
    // returns a pointer p with p + n_bytes == guard page; bytes before are filled with `fill`
    void *end_minus(size_t n, unsigned char fill = 0xC3, size_t pre = 64) { size_t tot = n + pre; if (tot > bytes) tot = bytes; memset(base + bytes - tot, fill, tot); return base + bytes - n; }
};

// Arena for structures that must be read-only during a call: bump allocator over private pages,
// protect()/unprotect() flip the whole arena.
struct Arena {
    char *base; size_t bytes, used; bool prot;
    explicit Arena(size_t pages = 64) : used(0), prot(false) {
        long ps = sysconf(_SC_PAGESIZE); bytes = pages * ps;
        base = (char *)mmap(0, bytes, PROT_READ | PROT_WRITE, MAP_PRIVATE | MAP_ANONYMOUS, -1, 0); if (base == MAP_FAILED) plat_die("mmap arena");
    }
    void reset() { if (prot) unprotect(); used = 0; }
    void *alloc(size_t n) { size_t a = (used + 15) & ~(size_t)15; if (a + n > bytes) { fprintf(stderr, "arena exhausted\n"); abort(); } used = a + n; return base + a; }
    void protect() { if (mprotect(base, bytes, PROT_READ) != 0) plat_die("mprotect ro"); prot = true; }
    void unprotect() { if (mprotect(base, bytes, PROT_READ | PROT_WRITE) != 0) plat_die("mprotect rw"); prot = false; }
    void revoke() { if (mprotect(base, bytes, PROT_NONE) != 0) plat_die("mprotect none"); prot = true; }
    bool contains(const void *p) const { return (const char *)p >= base && (const char *)p < base + bytes; }
};
